#!/bin/bash
# development helper: build engine binary and run one worker job: dev.sh <prop> <tier> <first> <count> [trace]
set -e
export GOTOOLCHAIN=local GOFLAGS=-mod=mod GOPROXY=off GOSUMDB=off
cd /verif/sim && go1.26.8 test -c -tags verif -overlay /verif/build/overlay.json -o /verif/build/${PKG:-engine}.test ./${PKG:-engine}
cat > /dev/shm/job.json <<EOT
{"prop":"$1","tier":"$2","seed_base":${SEED:-1},"first":$3,"count":$4,"stride":1,"out":"/dev/shm/out.json","trace":${5:-false}}
EOT
cd /verif && VERIF_JOB=/dev/shm/job.json ./build/${PKG:-engine}.test -test.run '^TestWorker$' -test.timeout 0 > /dev/shm/worker.log 2>&1 || { tail -30 /dev/shm/worker.log; exit 1; }
python3 - <<'EOT'
import json,collections
o=json.load(open('/dev/shm/out.json')); o['found']=o['found'] or []
print('runs',o['runs'],'nontrivial',o['nontrivial'],'wall',round(o['wall_s'],1),'foreign',o['foreign'],'found',len(o['found']))
c=collections.Counter((f['run_index'],f['oracle'],f['class']) for f in o['found'])
seen=set()
for f in o['found']:
    k=(f['oracle'],f['class'])
    if k in seen: continue
    seen.add(k)
    print(f['run_index'],f['oracle'],f['class'],f['msg'][:300])
    if f.get('detail'): print('   ','\n    '.join(f['detail'].split('\n')[:40]))
print('probes',o['probes'])
EOT
