#!/usr/bin/env python3
"""Regenerate MANIFEST.json from bin/props.py and bin/manifest_meta.py."""
import json, os, subprocess, sys
VERIF = os.path.dirname(os.path.dirname(os.path.abspath(__file__)))
sys.path.insert(0, os.path.join(VERIF, "bin"))
from props import PROPS
from manifest_meta import META, NOT_APPLICABLE, HOOK_COMMITS

checks = []
for pid in sorted(PROPS):
    if pid not in META:
        continue
    m = META[pid]
    checks.append(dict(
        property_id=pid,
        quick_cmd="bin/check %s quick" % pid,
        thorough_cmd="bin/check %s thorough" % pid,
        evidence_file="evidence/%s.json" % pid,
        replay_cmd_template="bin/check %s quick --replay {path}" % pid,
        engine=m["engine"],
        level_claimed=dict(category=PROPS[pid]["level"], text=m["text"], design_ref=m["design_ref"]),
        level_note=m["note"],
        technique=m["technique"],
    ))
man = dict(
    version=1,
    setup_cmd="bin/setup",
    hooks=dict(
        guard="verif",
        enable="go1.26.8 test -c -tags verif -overlay /verif/build/overlay.json in the harness module /verif/sim (replace github.com/B1NARY-GR0UP/originium => /repo); every check rebuilds from /repo's working tree",
        baseline_off_cmd="cd /repo && go test -mod=mod -vet=off -count=1 -timeout 25m ./...",
        source_commits=HOOK_COMMITS,
        add_only=True,
    ),
    engines=[
        dict(name="engine", path="sim/engine", serves_properties=[c["property_id"] for c in checks if c["engine"] == "engine"],
             kind_free_text="whole-engine deterministic simulation: real originium on simrt (seeded scheduler, simulated pool, fs shadow, crash images)"),
        dict(name="comp", path="sim/comp", serves_properties=[c["property_id"] for c in checks if c["engine"] == "comp"],
             kind_free_text="component-level simulation on simrt: watermark, skiplist, codecs, level manager"),
    ],
    checks=checks,
    not_applicable=NOT_APPLICABLE,
    notes="Deterministic simulation with fault injection; see DESIGN.md. known_findings.json lists repaired defects (fix: commits in /repo).",
)
with open(os.path.join(VERIF, "MANIFEST.json"), "w") as f:
    json.dump(man, f, indent=1)
print("MANIFEST.json: %d checks, %d not applicable" % (len(checks), len(NOT_APPLICABLE)))
