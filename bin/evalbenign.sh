#!/bin/bash
# evalbenign.sh <id> <base-commit> : apply seeded/benign-<id>/patch.diff to a scratch worktree of /repo at <base-commit>
# and run every quick check against it (VERIF_REPO); all must exit 0. The worktree is removed afterwards.
id=$1; base=${2:-HEAD}
wt=/tmp/wt-eval-$id
git -C /repo worktree remove --force $wt 2>/dev/null
git -C /repo worktree add -q --detach $wt $base || exit 2
cd $wt && git apply /verif/seeded/benign-$id/patch.diff || { echo "patch does not apply"; exit 2; }
cd /verif
ev=$(mktemp -d /dev/shm/evidence-keep-XXXX); cp -a /verif/evidence/. $ev/
for p in ${PROPS:-C01 C02 C05 C06 C07 C08 C15 C13 C17 C11 C09 C10 C03 C04 C14 C12}; do
  out=$(VERIF_REPO=$wt bin/check $p quick 2>&1); rc=$?
  case $rc in
    0) echo "$p ok       $(echo "$out" | tail -1 | cut -c1-100)";;
    1) echo "$p ALARM    $(echo "$out" | grep -m1 '^violation:' | cut -c1-300)";;
    *) echo "$p BROKEN($rc) $(echo "$out" | tail -3 | tr '\n' ' ' | cut -c1-400)";;
  esac
done
cp -a $ev/. /verif/evidence/; rm -rf $ev
git -C /repo worktree remove --force $wt
