#!/bin/bash
# intake.sh <worktree> <seeded-id> : confirm a sub-agent's seeded change myself and file it under /verif/seeded/<id>/
# (suite passes with the change, demonstration fails with it and passes without), then leave the worktree clean.
wt=$1; id=$2
cd "$wt" || exit 2
[ -f MUTATION/patch.diff ] || { echo "no MUTATION/patch.diff"; exit 2; }
git checkout -q -- . 2>/dev/null
demo=$(python3 -c "
import json,re
d=json.load(open('MUTATION/meta.json')).get('demo_cmd','')
d=re.sub(r'git apply MUTATION/patch.diff\s*&&\s*','',d)
d=re.sub(r';\s*git checkout [\w./-]+','',d)
d=d.split('#')[0].strip()
print(d)")
echo "demo_cmd: $demo"
run_demo() { ( cd "$wt" && timeout 600 bash -c "$demo" ) > /tmp/intake-demo.log 2>&1; echo $?; }
base=$(run_demo); echo "demo without change: exit $base"
git apply MUTATION/patch.diff || { echo "patch does not apply"; exit 2; }
if go build ./... 2>/tmp/intake-build.log; then echo "builds with change"; else echo "DOES NOT BUILD"; cat /tmp/intake-build.log | head; fi
suite=$( (go test -mod=mod -vet=off -count=1 $(go list -mod=mod ./... | grep -v MUTATION) > /tmp/intake-suite.log 2>&1); echo $?); echo "suite with change: exit $suite"
mut=$(run_demo); echo "demo with change: exit $mut"; tail -5 /tmp/intake-demo.log | cut -c1-200
git checkout -q -- . ; git clean -fdq -e MUTATION >/dev/null 2>&1
mkdir -p /verif/seeded/$id && cp -r MUTATION/. /verif/seeded/$id/
python3 - "$id" "$base" "$suite" "$mut" <<'PY'
import json,sys
id,base,suite,mut=sys.argv[1:]
p='/verif/seeded/%s/meta.json'%id
m=json.load(open(p))
m['confirmed_by_me']={'demo_without_change_exit':int(base),'suite_with_change_exit':int(suite),'demo_with_change_exit':int(mut),
  'valid': int(base)==0 and int(suite)==0 and int(mut)!=0}
json.dump(m,open(p,'w'),indent=1)
print('valid:',m['confirmed_by_me']['valid'])
PY
