#!/bin/bash
# background sweep on a snapshot (vp run --with-repo): thorough tier of every check with a reduced budget
cd "$(dirname "$0")/.."
export VERIF_REPO=${VP_RUN_REPO:-/repo}
export VERIF_BUDGET_S=${SWEEP_BUDGET_S:-300}
export VERIF_SEED=${SWEEP_SEED:-7}
bin/setup >/dev/null 2>&1
for p in ${SWEEP_PROPS:-C01 C02 C05 C06 C07 C08 C15 C13 C17 C11 C09 C10 C03 C04 C14 C12}; do
  echo "=== $p $(date +%T)"
  bin/check $p thorough 2>&1 | tail -4 | cut -c1-1200
  echo "rc=$?"
done
