HOOK_COMMITS = ["012d8f9", "cf15e0d"]

WHOLE = ("trusted base: the simulation runtime (std overlay of go1.26.8, scheduler, fs shadow), the reference model of this "
         "check, porcupine where used; preemption only at synchronisation/file operations; sampling, not proof")

META = {
    "C01": dict(engine="engine", design_ref="7 C01",
                technique="deterministic simulation: seeded schedules of client vs flusher/compactor, map-model oracle",
                text="Seeded exploration: thousands of generated single-client programs, each under its own schedule of the real "
                     "flusher/compactor/watermark goroutines and its own Config, every Get compared exactly with a sequential map "
                     "model; exploration is the honest level because inputs, configurations and schedules are sampled.",
                note=WHOLE),
    "C02": dict(engine="engine", design_ref="7 C02",
                technique="deterministic simulation with clean restart faults, map-model oracle across instances",
                text="Seeded exploration of histories with clean Close/Open cycles at drawn positions, new Config per Open and "
                     "restart gaps from 1 ns to days on the simulated clock; every read after a reopen is compared with the map model.",
                note=WHOLE),
    "C03": dict(engine="engine", design_ref="7 C03",
                technique="deterministic simulation, crash-point enumeration at the os seam, acknowledged-set oracle",
                text="For each sampled execution every crash point (every mutating file operation of every goroutine) is enumerated "
                     "and recovered by a fresh instance; a sample of recoveries is enumerated again (nested crashes). Exhaustive over "
                     "crash points of an execution, sampled over executions.",
                note=WHOLE + "; process-crash model: completed file operations persist"),
    "C04": dict(engine="engine", design_ref="7 C04",
                technique="deterministic simulation, crash-point enumeration, per-transaction all-or-nothing oracle",
                text="Same enumeration as C03; the oracle checks that the commit in flight at the crash is visible for all or none of "
                     "the keys whose old and new values are distinguishable.",
                note=WHOLE + "; process-crash model"),
    "C14": dict(engine="engine", design_ref="7 C14",
                technique="deterministic simulation, crash-point enumeration plus enumerated unsynced-tail truncation",
                text="C03's enumeration with every file's unsynced tail cut at enumerated lengths (fsync tracked at the os seam); "
                     "Open must succeed and every acknowledged commit must be visible.",
                note=WHOLE + "; durability model: bytes beyond a file's last completed fsync may be lost as a suffix; directory operations ordered and durable"),
}

NOT_APPLICABLE = [
    dict(property_id="C16", reason="pure function of its input (fixed murmur3 seeds, no clock, randomness, I/O, shared state): nothing for a schedule, fault or interleaving to decide; DESIGN.md section 8"),
]
