HOOK_COMMITS = ["012d8f9", "cf15e0d", "fd182fa", "130f800"]

WHOLE = ("trusted base: the simulation runtime (std overlay of go1.26.8, scheduler, fs shadow), the reference model of this "
         "check, porcupine where used; preemption only at synchronisation/file operations; sampling, not proof")

META = {
    "C01": dict(engine="engine", design_ref="7 C01",
                technique="deterministic simulation: seeded schedules of client vs flusher/compactor, map-model oracle",
                text="Seeded exploration: thousands of generated single-client programs, each under its own schedule of the real "
                     "flusher/compactor/watermark goroutines and its own Config, every Get compared exactly with a sequential map "
                     "model; exploration is the honest level because inputs, configurations and schedules are sampled.",
                note=WHOLE),
    "C02": dict(engine="engine", design_ref="7 C02",
                technique="deterministic simulation with clean restart faults, map-model oracle across instances",
                text="Seeded exploration of histories with clean Close/Open cycles at drawn positions, new Config per Open and "
                     "restart gaps from 1 ns to days on the simulated clock; every read after a reopen is compared with the map model.",
                note=WHOLE),
    "C03": dict(engine="engine", design_ref="7 C03",
                technique="deterministic simulation, crash-point enumeration at the os seam, acknowledged-set oracle",
                text="For each sampled execution every crash point (every mutating file operation of every goroutine) is enumerated "
                     "and recovered by a fresh instance; a sample of recoveries is enumerated again (nested crashes). Exhaustive over "
                     "crash points of an execution, sampled over executions.",
                note=WHOLE + "; process-crash model: completed file operations persist"),
    "C04": dict(engine="engine", design_ref="7 C04",
                technique="deterministic simulation, crash-point enumeration, per-transaction all-or-nothing oracle",
                text="Same enumeration as C03; the oracle checks that the commit in flight at the crash is visible for all or none of "
                     "the keys whose old and new values are distinguishable.",
                note=WHOLE + "; process-crash model"),
    "C14": dict(engine="engine", design_ref="7 C14",
                technique="deterministic simulation, crash-point enumeration plus enumerated unsynced-tail truncation",
                text="C03's enumeration with every file's unsynced tail cut at enumerated lengths (fsync tracked at the os seam); "
                     "Open must succeed and every acknowledged commit must be visible.",
                note=WHOLE + "; durability model: bytes beyond a file's last completed fsync may be lost as a suffix; directory operations ordered and durable"),
    "C05": dict(engine="engine", design_ref="7 C05",
                technique="deterministic simulation of concurrent clients; linearizability of snapshot-read/commit-write history (porcupine)",
                text="Seeded exploration of interleavings of 2-4 clients with the background goroutines; each history is decided exactly "
                     "(linearizability search), the space of histories is sampled.",
                note=WHOLE + "; porcupine timeouts (20 s) are counted as inconclusive, never reported"),
    "C06": dict(engine="engine", design_ref="7 C06",
                technique="deterministic simulation of concurrent clients; strict serializability via porcupine on whole-transaction operations",
                text="Same runs as C05 cut differently: committed and read-only transactions as atomic operations, linearizable iff strictly serializable.",
                note=WHOLE + "; porcupine timeouts are inconclusive"),
    "C07": dict(engine="engine", design_ref="7 C07",
                technique="deterministic simulation; reference SSI model compared verdict by verdict (exact in op-atomic schedules)",
                text="Both directions of the iff are decided exactly where API calls do not overlap (background goroutines still interleave); "
                     "in overlapping schedules verdicts are judged where real time disambiguates them, and missed conflicts also where the "
                     "engine's own read/commit timestamps (verif accessors) order two overlapping commits.",
                note=WHOLE + "; key fingerprints are 64-bit hashes: a collision would be reported as a spurious conflict (not observed)"),
    "C08": dict(engine="engine", design_ref="7 C08",
                technique="deterministic simulation; map model ignoring abandoned transactions, unique values, documented-error table",
                text="Seeded exploration of programs with discarded, failed and refused transactions and misuse calls, followed by "
                     "rotations, flushes, compactions and restarts.",
                note=WHOLE),
    "C09": dict(engine="comp", design_ref="7 C09",
                technique="simulation-hosted level-manager driver; before/after comparison around every compaction, both of brute-force answers over the decoded tables and of the engine's own lookups",
                text="Generated table layouts and watermarks, real flush/compaction/recover code; answers for all keys x all permitted "
                     "timestamps of each case are compared exhaustively; layouts, configurations and watermarks are sampled.",
                note=WHOLE + "; Get-level (not entry-level) equality: a dropped tombstone that shadows nothing is not an error; the table decoder is trusted (C11 checks it)"),
    "C10": dict(engine="comp", design_ref="7 C10",
                technique="simulation-hosted level-manager driver; real lookup vs brute force over decoded tables, exhaustive per case",
                text="Exhaustive over (key, timestamp) for the small universe of each generated layout, sampled over layouts, block sizes and "
                     "rebuilt-vs-built handles. The schedule dimension is degenerate for this property (DESIGN 7 C10).",
                note=WHOLE + "; the table decoder is trusted (C11 checks it)"),
    "C11": dict(engine="comp", design_ref="7 C11, 3.6",
                technique="deterministic simulation with an adversarial buffer pool as scheduled fault; round-trip and byte-stability oracles",
                text="The pool plays the concurrent goroutine: reuse-after-Put is made to happen at the earliest legal moment, deterministically; "
                     "several encoder tasks interleave under seeded schedules.",
                note=WHOLE + "; an encoder may refuse (error) a key longer than its 16-bit length field; accepting and truncating is a violation"),
    "C12": dict(engine="engine", design_ref="7 C12, 3.7",
                technique="deterministic simulation built with -race: race detector on serialised seeded schedules with an invisible hand-off; panic capture; C05-C07 oracles",
                text="The detector flags only what a schedule executes; here schedules are searched and every report comes with a seed that "
                     "reproduces it. Exploration over schedules and configurations (every flush-queue length including zero).",
                note=WHOLE + "; relies on runtime.RaceDisable/RaceReleaseMerge semantics of go1.26.8; TSan reports a given stack pair once per process"),
    "C13": dict(engine="comp", design_ref="7 C13",
                technique="deterministic simulation of the watermark alone; counting reference model evaluated by the scheduler at every step",
                text="Seeded exploration of caller interleavings with the real consumer goroutine; invariants are checked at every "
                     "scheduling step, liveness (catch-up, release of waiters) exactly via deadlock detection.",
                note=WHOLE + "; Begin indices are issued in non-decreasing order under a lock, as the engine's oracle does; "
                     "'unfinished' is relative to Begin calls that returned and Done calls that started"),
    "C17": dict(engine="comp", design_ref="7 C17",
                technique="simulated tower-height randomness (fake clock seed) + sorted-slice reference model",
                text="The property has no schedule or fault dimension; what the simulator adds is control of the PRNG seed (time.Now) so "
                     "that tower shapes are explored across seeds and fixed on replay.",
                note=WHOLE),
    "C15": dict(engine="engine", design_ref="7 C15",
                technique="deterministic simulation; exact deadlock detection by the scheduler, bounded-step liveness with fair tail",
                text="The scheduler knows the state of every goroutine: an empty runnable set with an outstanding call is a deadlock, not a "
                     "timeout; starvation is only reported after a fair round-robin tail.",
                note=WHOLE + "; Close racing with in-flight client calls is not generated (the property does not promise anything for it)"),
}

NOT_APPLICABLE = [
    dict(property_id="C16", reason="pure function of its input (fixed murmur3 seeds, no clock, randomness, I/O, shared state): nothing for a schedule, fault or interleaving to decide; DESIGN.md section 8"),
]
