#!/bin/bash
# mut.sh '<file>' '<sed expr>' <count> <prop...> : apply a sed mutation to /repo, run dev.sh for each prop, revert.
f=$1; expr=$2; n=$3; shift 3
cd /repo && git diff --quiet || { echo "repo dirty"; exit 1; }
sed -i "$expr" $f
git diff --stat | tail -1
( cd /repo && GOTOOLCHAIN=local GOFLAGS=-mod=mod GOPROXY=off go1.26.8 build ./... ) || { git checkout -- .; exit 1; }
for p in "$@"; do echo "== $p"; /verif/bin/dev.sh $p quick 0 $n 2>&1 | grep -v "^    " | cut -c1-400 | head -8; done
cd /repo && git checkout -- .
