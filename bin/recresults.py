#!/usr/bin/env python3
"""recresults.py <seeded-id> <logfile> [section]: store the per-check results of an evalmut.sh / evalbenign.sh log
(lines 'Cxx ok|missed|DETECTED|ALARM|BROKEN...') in seeded/<id>/meta.json (checks_run). With section, only the
lines after '=== <section>' up to the next '===' are taken."""
import json, os, re, sys
V = os.path.dirname(os.path.dirname(os.path.abspath(__file__)))
sid, log = sys.argv[1], sys.argv[2]
sec = sys.argv[3] if len(sys.argv) > 3 else None
take = sec is None
res = []
for line in open(log, errors="replace"):
    if line.startswith("==="):
        take = sec is None or line.split()[1] == sec
        continue
    m = re.match(r"(C\d\d) (ok|missed|DETECTED|ALARM|BROKEN\(\d+\))\s*(.*)", line)
    if take and m:
        detail = m.group(3).strip()
        r = m.group(2)
        if r in ("DETECTED", "ALARM") or r.startswith("BROKEN"):
            r += "; " + detail[:300]
        res.append(dict(property=m.group(1), result=r))
p = os.path.join(V, "seeded", sid, "meta.json")
d = json.load(open(p))
d["checks_run"] = res
json.dump(d, open(p, "w"), indent=1)
print(sid, "; ".join("%s %s" % (c["property"], c["result"].split(";")[0]) for c in res))
