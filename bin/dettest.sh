#!/bin/bash
# dettest.sh <prop> <runs> : large determinism self-test: the same <runs> run indices in 9 processes
# (GOMAXPROCS 1,4,16 x3), event-log hashes (including the recoveries of crash checks) must agree.
prop=$1; n=${2:-200}; pkg=$(python3 -c "import sys;sys.path.insert(0,'/verif/bin');from props import PROPS;print(PROPS['$prop']['pkg'])")
export GOTOOLCHAIN=local GOFLAGS=-mod=mod GOPROXY=off GOSUMDB=off
cd /verif/sim && go1.26.8 test -c -tags verif -overlay /verif/build/overlay.json -o /dev/shm/det-$pkg.test ./$pkg || exit 2
d=/dev/shm/dettest-$prop; rm -rf $d; mkdir -p $d; cd $d
i=0
for g in 1 4 16 1 4 16 1 4 16; do
  i=$((i+1))
  echo "{\"prop\":\"$prop\",\"tier\":\"quick\",\"seed_base\":${SEED:-3},\"first\":0,\"count\":$n,\"stride\":1,\"out\":\"$d/out$i.json\"}" > job$i.json
  GOMAXPROCS=$g VERIF_JOB=$d/job$i.json /dev/shm/det-$pkg.test -test.run '^TestWorker$' -test.timeout 0 > log$i.txt 2>&1 &
done
wait
python3 - "$d" <<'PY'
import json,sys,glob
d=sys.argv[1]
outs=[json.load(open(f))['run_hashes'] for f in sorted(glob.glob(d+'/out*.json'))]
keys=set(outs[0])
bad=[k for k in keys if len(set(o.get(k) for o in outs))>1]
print("%d processes, %d runs each, diverging runs: %s" % (len(outs), len(keys), sorted(bad, key=int)[:20]))
sys.exit(1 if bad or len(outs)<9 else 0)
PY
rc=$?; rm -rf $d /dev/shm/det-$pkg.test; exit $rc
