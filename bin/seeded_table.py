#!/usr/bin/env python3
"""Rewrite the seeded-change table in DESIGN.md (between the SEEDED-TABLE markers) from seeded/*/meta.json."""
import glob, json, os, re
V = os.path.dirname(os.path.dirname(os.path.abspath(__file__)))
rows = []
for f in sorted(glob.glob(os.path.join(V, "seeded", "*", "meta.json"))):
    sid = f.split("/")[-2]
    m = json.load(open(f))
    summ = re.sub(r"\s+", " ", m.get("summary", ""))[:230]
    needs = re.sub(r"\s+", " ", m.get("needs", ""))[:200]
    res = "; ".join("%s %s" % (c["property"], c["result"].split(";")[0]) for c in m.get("checks_run", []))
    valid = m.get("confirmed_by_me", {}).get("valid")
    rows.append("| %s | %s | %s | %s | %s |" % (sid, summ.replace("|", "/"), needs.replace("|", "/"), ("n/a (correct change)" if sid.startswith("benign") else "yes" if valid else "NO"), res.replace("|", "/")))
table = ("<!-- SEEDED-TABLE-BEGIN -->\n| id | change | needs | confirmed (suite passes, demo fails with / passes without) | checks run -> result |\n"
         "|----|--------|-------|-----|-----|\n" + "\n".join(rows) + "\n<!-- SEEDED-TABLE-END -->")
p = os.path.join(V, "DESIGN.md")
s = open(p).read()
if "SEEDED_TABLE_PLACEHOLDER" in s:
    s = s.replace("SEEDED_TABLE_PLACEHOLDER", table)
else:
    s = re.sub(r"<!-- SEEDED-TABLE-BEGIN -->.*?<!-- SEEDED-TABLE-END -->", lambda _: table, s, flags=re.S)
open(p, "w").write(s)
print("%d seeded changes in the table" % len(rows))
