"""Per-property parameters of the driver (bin/check)."""

SEQ_RULE = ("one run = one generated single-client program (10-150 transactions over 2-8 adversarial keys, unique values, "
            "random Config) executed against the real engine under one seeded schedule of client, flusher/compactor and "
            "watermark goroutines; evaluations = runs; distinct_nontrivial = distinct event-log hashes (task, site, pc per "
            "scheduling step plus every random draw) among runs that flushed at least one table and checked at least one read")

LM_RULE = ("one run = (one run in eight is a 'deep' case: 30-70 one-key flushes over 14-25 keys with a compaction after each and handle "
           "rebuilds in between, so that levels hold more than ten tables and two-digit table indices occur; otherwise:) a real levelManager (through the verif accessor) over its own directory with drawn L0TargetNum/LevelRatio/"
           "block size (down to one entry per block) and a drawn version-discard watermark, driven through 1-7 generated flushes "
           "(1-30 versioned entries over 2-8 adversarial keys, several versions and tombstones per key, overlapping and disjoint key "
           "ranges), compactions (cascades included) and handle rebuilds by recover(), inside the simulation runtime (clock, pool and "
           "file operations controlled; single driver task - this property has no schedule dimension)")
LM_COMPONENTS = {"levelManager (flushToL0, checkAndCompact, recover, searchLowerBound), table, kway, filter": "real code via verif accessor",
                 "oracle/watermark": "real (provides the discard watermark)", "clock, pool": "simulated", "file system": "real files on tmpfs"}

CONC_RULE = ("one run = one generated multi-client program (2-4 clients, up to 36 transactions over 2-6 adversarial keys: "
             "read-modify-write, read-two-write-one, multi-key writers, multi-key readers, long-lived readers that stay open across "
             "2-13 foreign commits, unique values, rotation-heavy Config) under one seeded schedule of clients, flusher/compactor and "
             "watermark goroutines (fine-grained: calls overlap at every lock/channel/file operation; op-atomic: API calls do not overlap); "
             "distinct_nontrivial = distinct event-log hashes among non-trivial runs")

CRASH_RULE = ("one evaluation = one recovery: a recording run (generated single-writer program with multi-key transactions, "
              "small thresholds, optional clean restarts) is executed once under a seeded schedule; at EVERY mutating file operation "
              "of every goroutine the directory image and the oracle's acknowledged/in-flight sets are captured; each distinct "
              "(image, oracle state) is opened by a fresh engine instance in its own bubble, all keys are read and compared with "
              "the allowed sets, a post-recovery workload commits, the store is restarted cleanly and read again; a sample of "
              "recoveries is itself recorded and its crash points enumerated (crash during recovery, depth <= 3). "
              "distinct_nontrivial = distinct event-log hashes of recording runs that flushed at least one table; "
              "probes.distinct_images counts distinct image contents recovered")

PROPS = {
    "C01": dict(
        pkg="engine", level="exploration", rule=SEQ_RULE,
        quick=dict(runs=1200, budget_s=45), thorough=dict(runs=60000, budget_s=1200, det_runs=32),
        must_probes=dict(quick=["runs_reaching_L1", "select_multi_ready"],
                         thorough=["runs_reaching_L1", "runs_reaching_L2", "select_multi_ready"]),
    ),
    "C02": dict(
        pkg="engine", level="exploration",
        rule=SEQ_RULE + "; programs additionally contain clean Close/Open cycles at drawn positions (after a rotation, with a "
                        "non-empty flush queue, twice in a row) with a new Config per Open and restart gaps from 1 ns to days; "
                        "non-trivial additionally requires at least one restart; besides read mismatches, an Open that fails or panics on a "
                        "cleanly closed directory and any client call that panics on a reopened instance are violations",
        quick=dict(runs=1200, budget_s=45), thorough=dict(runs=60000, budget_s=1200, det_runs=32),
        must_probes=dict(quick=["restart", "runs_reaching_L1"], thorough=["restart", "runs_reaching_L1", "runs_reaching_L2"]),
    ),
    "C03": dict(
        pkg="engine", level="fault_enumeration", rule=CRASH_RULE, eval_is_oracle=True,
        quick=dict(runs=96, budget_s=50, det_runs=3), thorough=dict(runs=4000, budget_s=1200, det_runs=4),
        must_probes=dict(quick=["crash_with_inflight_commit", "recovery_multi_wal", "recovery_wal_and_tables"],
                         thorough=["crash_with_inflight_commit", "recovery_multi_wal", "recovery_wal_and_tables"]),
    ),
    "C04": dict(
        pkg="engine", level="fault_enumeration", rule=CRASH_RULE + "; oracle: the commit in flight at the crash is visible for all or none of the keys whose old and new value differ",
        eval_is_oracle=True,
        quick=dict(runs=96, budget_s=50, det_runs=3), thorough=dict(runs=4000, budget_s=1200, det_runs=4),
        must_probes=dict(quick=["crash_with_inflight_multikey_commit"], thorough=["crash_with_inflight_multikey_commit", "crash_with_inflight_commit_over_64KiB"]),
    ),
    "C14": dict(
        pkg="engine", level="fault_enumeration",
        rule=CRASH_RULE + "; every image is additionally expanded into tail-cut variants: each file with bytes beyond its last "
                          "completed fsync is cut to {synced, synced+1, middle, len-1} and, for wal files, inside the length "
                          "prefix, at record boundaries and inside record bodies (product over files up to 16 variants, else a "
                          "sample that always contains everything-cut-to-synced); only variants with at least one cut are run here",
        eval_is_oracle=True,
        quick=dict(runs=64, budget_s=50, det_runs=3), thorough=dict(runs=3000, budget_s=1200, det_runs=4),
        must_probes=dict(quick=["crash_with_inflight_commit"], thorough=["crash_with_inflight_commit"]),
    ),
    "C05": dict(
        pkg="engine", level="exploration",
        rule=CONC_RULE + "; oracle H-snap: per transaction one snapshot-read operation in its Begin interval (all reads not answered by its own writes) "
             "and per successful commit one write operation in its Commit interval, checked for linearizability against a map with porcupine; "
             "own-writes and repeatable-read checked directly; non-trivial = at least 5 such operations and at least one flushed table",
        quick=dict(runs=6000, budget_s=40), thorough=dict(runs=300000, budget_s=1200, det_runs=32),
        must_probes=dict(quick=["long_reader_spans", "conflict_aborts", "runs_reaching_L1", "fine_grained_runs", "op_atomic_runs"],
                         thorough=["long_reader_spans", "conflict_aborts", "runs_reaching_L2", "fine_grained_runs", "op_atomic_runs"]),
    ),
    "C06": dict(
        pkg="engine", level="exploration",
        rule=CONC_RULE + "; oracle H-txn: every committed read-write transaction and every read-only transaction is one operation over "
             "[Begin called, finish returned] with payload (external reads with results, write set), checked for linearizability "
             "(= strict serializability) against a map with porcupine; non-trivial = at least 5 operations",
        quick=dict(runs=6000, budget_s=40), thorough=dict(runs=300000, budget_s=1200, det_runs=32),
        must_probes=dict(quick=["conflict_aborts", "fine_grained_runs"], thorough=["conflict_aborts", "fine_grained_runs", "runs_reaching_L2"]),
    ),
    "C07": dict(
        pkg="engine", level="exploration", eval_is_oracle=True,
        rule=CONC_RULE + " (histories up to 100 transactions, 50% op-atomic schedules); oracle M-ssi: reference SSI validation "
             "(snapshot = number of commits at Begin, conflict iff a later commit wrote a key read from the store), exact in op-atomic "
             "schedules in both directions; otherwise the real-time must-refuse/must-accept rule, and for commits that overlap the judged "
             "transaction's Begin or Commit the engine's own read and commit timestamps (verif accessors; the commit timestamp is found "
             "by reading the written key at successive timestamps as soon as both transactions have finished): a committed transaction "
             "with a writer of a key it read at a timestamp between its read and commit timestamps is a missed conflict "
             "(remaining ambiguous cases counted, accepted); "
             "evaluations = commit verdicts judged",
        quick=dict(runs=3000, budget_s=40), thorough=dict(runs=150000, budget_s=1200, det_runs=32),
        must_probes=dict(quick=["conflict_aborts", "op_atomic_runs", "fine_grained_runs", "long_reader_spans", "commit_ts_resolved"],
                         thorough=["conflict_aborts", "op_atomic_runs", "fine_grained_runs", "long_reader_spans", "commit_ts_resolved"]),
    ),
    "C08": dict(
        pkg="engine", level="exploration",
        rule=SEQ_RULE + "; two thirds of the runs are single-client programs with discarded / closure-failed transactions (half of the failing Update "
             "closures panic and the client recovers around db.Update), misuse calls "
             "(write in read-only txn, use after finish, empty key, View/Update after Close) and clean restarts judged by the map model "
             "that ignores abandoned transactions; one third are 2-3 client programs where no read may return a value of a "
             "transaction that did not commit; non-trivial = at least one abandoned transaction or misuse call and one read",
        quick=dict(runs=3000, budget_s=40), thorough=dict(runs=150000, budget_s=1200, det_runs=32),
        must_probes=dict(quick=["abandoned_txns", "misuse_calls", "restart", "conc_runs", "closure_panics"], thorough=["abandoned_txns", "misuse_calls", "restart", "conc_runs", "closure_panics"]),
    ),
    "C15": dict(
        pkg="engine", level="exploration",
        rule=CONC_RULE + " with one owning writer per key, ImmutableBuffer in {0,1,2,10}, thresholds 1-300 bytes, half of the runs with the "
             "starve-background strategy; after the clients finish Close is called with whatever is pending, the directory is reopened "
             "1 ns later and read back; oracle: exact deadlock detection (no runnable task while a call is outstanding), step budget "
             "with fair round-robin tail, flusher task exited when Close returned, reopened state = last committed write per key",
        quick=dict(runs=5000, budget_s=40), thorough=dict(runs=250000, budget_s=1200, det_runs=32),
        must_probes=dict(quick=["close_with_pending_flush", "unbuffered_flush_queue_runs", "long_reader_spans"],
                         thorough=["close_with_pending_flush", "unbuffered_flush_queue_runs", "long_reader_spans"]),
    ),
    "C12": dict(
        pkg="engine", race=True, level="exploration",
        # race-detector processes do not scale in this VM (about 3.4 runs/s in total however many run in parallel)
        workers=2,
        rule=CONC_RULE + "; the simulation binary is built with -race and the scheduler hand-off is invisible to the detector (tasks "
             "release to the scheduler only; lock probes and wake-ups run with synchronisation events disabled), so the detector sees "
             "exactly the engine's own synchronisation under a serialised, replayable schedule; a report counts when both access stacks "
             "reach engine code before any harness frame; violations: such reports, any panic of an engine goroutine or client call, "
             "and any verdict of the C05/C06/C07 oracles on the same history",
        quick=dict(runs=400, budget_s=35, det_runs=2), thorough=dict(runs=8000, budget_s=1800, det_runs=6),
        must_probes=dict(quick=["fine_grained_runs", "runs_reaching_L1", "long_reader_spans"], thorough=["fine_grained_runs", "runs_reaching_L2", "long_reader_spans"]),
    ),
    "C13": dict(
        pkg="comp", level="exploration", eval_is_oracle=True,
        rule="one run = a real WaterMark (real consumer goroutine as a simulated task) driven by 1-4 caller tasks with generated "
             "Begin/Done/WaitForMark/cancel sequences (repeated indices, out-of-order completion, indices begun out of order (a skipped "
             "index begun after higher ones), Done without Begin before anything "
             "else, indices at or below the current mark, bursts of more marks than the channel buffer with the consumer starved, "
             "some begins deliberately left unfinished) under one seeded schedule; the scheduler evaluates the counting model at "
             "EVERY scheduling step (monotone; not at/after an unfinished index), waits that must complete are never cancelled, "
             "the others are cancelled at drawn moments, catch-up is required at quiescence (exact, via deadlock detection); "
             "evaluations = scheduling steps at which the invariant was evaluated; distinct_nontrivial = distinct event-log hashes",
        quick=dict(runs=40000, budget_s=30), thorough=dict(runs=3000000, budget_s=900, det_runs=64),
        must_probes=dict(quick=["more_marks_than_buffer", "done_without_begin", "out_of_order_done", "wait_uncancelled_ok", "wait_cancelled", "begin_at_current_mark", "left_unfinished", "late_index_pair", "out_of_order_begin"],
                         thorough=["more_marks_than_buffer", "done_without_begin", "out_of_order_done", "wait_uncancelled_ok", "wait_cancelled", "begin_at_current_mark", "left_unfinished", "late_index_pair", "out_of_order_begin"]),
        components={"pkg/watermark": "real code (consumer goroutine simulated as a task)", "callers": "generated harness tasks",
                    "goroutine scheduling, select choice": "simulated (seeded)", "context": "real context package inside the synctest bubble"},
    ),
    "C17": dict(
        pkg="comp", level="exploration", eval_is_oracle=True,
        rule="one run = a real SkipList created with maxLevel 1-12 and p in {0.01,0.25,0.5,0.9,0.99} whose tower-height PRNG is seeded "
             "from the simulated clock (a drawn instant), then 1-200 generated Set/Delete/Get/LowerBound/Scan/All/Size/Reset operations "
             "over versioned adversarial keys, every result compared with a slice kept sorted by (key ascending, version descending); "
             "single task, no faults apply (the only nondeterminism of this property is the tower-height randomness); "
             "evaluations = operations compared; distinct_nontrivial = distinct (schedule, clock seed, shape) hashes",
        quick=dict(runs=60000, budget_s=20), thorough=dict(runs=5000000, budget_s=600, det_runs=64),
        must_probes=dict(quick=["overwrite_existing_versioned_key", "entries_at_end"], thorough=["overwrite_existing_versioned_key", "entries_at_end"]),
        components={"pkg/skiplist, types.CompareKeys": "real code", "clock (PRNG seed)": "synctest fake clock set from the run seed"},
    ),
    "C09": dict(
        pkg="comp", level="exploration", eval_is_oracle=True,
        rule=LM_RULE + "; C09 oracle: around every compaction that changed the tables, for every key of the universe (plus absent keys) and every "
             "ts in [watermark, max version + 1] the Get-level answer (value / not found, a tombstone counting as a version) computed by brute "
             "force from the decoded tables before and after is equal; at the end the answers also equal those computed from everything that "
             "was ever flushed; non-trivial = at least one compaction changed the tables",
        quick=dict(runs=4000, budget_s=40), thorough=dict(runs=200000, budget_s=1200, det_runs=32),
        must_probes=dict(quick=["compactions_that_changed_tables", "versions_discarded", "handles_rebuilt", "compaction_reached_L2", "one_entry_per_block_runs", "deep_runs"],
                         thorough=["compactions_that_changed_tables", "versions_discarded", "handles_rebuilt", "compaction_reached_L2", "one_entry_per_block_runs", "deep_runs", "two_digit_table_index"]),
        components=LM_COMPONENTS,
    ),
    "C10": dict(
        pkg="comp", level="exploration", eval_is_oracle=True,
        rule=LM_RULE + "; C10 oracle: after every action, for every key of the universe plus absent keys and EVERY ts in [0, max version + 1] "
             "(exhaustive over the small universe of the case) the real table lookup equals, at entry level (version, tombstone, value), "
             "the brute-force newest version <= ts over all decoded tables",
        quick=dict(runs=4000, budget_s=40), thorough=dict(runs=200000, budget_s=1200, det_runs=32),
        must_probes=dict(quick=["flushes", "handles_rebuilt", "one_entry_per_block_runs", "compactions_that_changed_tables"],
                         thorough=["flushes", "handles_rebuilt", "one_entry_per_block_runs", "compactions_that_changed_tables"]),
        components=LM_COMPONENTS,
    ),
    "C11": dict(
        pkg="comp", level="exploration", eval_is_oracle=True,
        rule="one run = 1-4 tasks calling Data/Index/Footer/Meta.Encode, table.Build and WAL.Write/Read on generated inputs (binary keys, "
             "empty values, long shared prefixes, lengths 0,1,255,256,4096 and, in 4% of the runs, 65535/65536/70000-byte values and "
             "oversize keys; block sizes from 1 byte) under one seeded schedule and the simulated buffer pool, adversarial in two thirds "
             "of the runs (a buffer is overwritten with a pattern the moment it is returned to the pool - a legal execution of the real pool); "
             "every returned byte slice is copied at return and compared at EVERY later scheduling step of any task (stability), and "
             "decoded and compared with the original (round trip); evaluations = slice comparisons + round trips",
        quick=dict(runs=12000, budget_s=40), thorough=dict(runs=600000, budget_s=1200, det_runs=32),
        must_probes=dict(quick=["adversarial_pool_runs", "multi_task_runs", "pool_reuse_of_freed_buffer", "fields_64KiB_or_more", "multi_block_tables", "round_trips"],
                         thorough=["adversarial_pool_runs", "multi_task_runs", "pool_reuse_of_freed_buffer", "fields_64KiB_or_more", "multi_block_tables", "round_trips"]),
        components={"table (Data/Index/Footer/Meta, Build), wal, utils (s2, frugal), types": "real code",
                    "sync.Pool under bufferpool": "simulated free list, adversarial overwrite on Put",
                    "goroutine scheduling": "simulated (seeded)", "file system": "real files on tmpfs (wal)"},
    ),
}
