"""Per-property parameters of the driver (bin/check)."""

SEQ_RULE = ("one run = one generated single-client program (10-150 transactions over 2-8 adversarial keys, unique values, "
            "random Config) executed against the real engine under one seeded schedule of client, flusher/compactor and "
            "watermark goroutines; evaluations = runs; distinct_nontrivial = distinct event-log hashes (task, site, pc per "
            "scheduling step plus every random draw) among runs that flushed at least one table and checked at least one read")

CRASH_RULE = ("one evaluation = one recovery: a recording run (generated single-writer program with multi-key transactions, "
              "small thresholds, optional clean restarts) is executed once under a seeded schedule; at EVERY mutating file operation "
              "of every goroutine the directory image and the oracle's acknowledged/in-flight sets are captured; each distinct "
              "(image, oracle state) is opened by a fresh engine instance in its own bubble, all keys are read and compared with "
              "the allowed sets, a post-recovery workload commits, the store is restarted cleanly and read again; a sample of "
              "recoveries is itself recorded and its crash points enumerated (crash during recovery, depth <= 3). "
              "distinct_nontrivial = distinct event-log hashes of recording runs that flushed at least one table; "
              "probes.distinct_images counts distinct image contents recovered")

PROPS = {
    "C01": dict(
        pkg="engine", level="exploration", rule=SEQ_RULE,
        quick=dict(runs=1200, budget_s=45), thorough=dict(runs=60000, budget_s=1200, det_runs=32),
        must_probes=dict(quick=["runs_reaching_L1", "runs_reaching_L2", "select_multi_ready"],
                         thorough=["runs_reaching_L1", "runs_reaching_L2", "select_multi_ready"]),
    ),
    "C02": dict(
        pkg="engine", level="exploration",
        rule=SEQ_RULE + "; programs additionally contain clean Close/Open cycles at drawn positions (after a rotation, with a "
                        "non-empty flush queue, twice in a row) with a new Config per Open and restart gaps from 1 ns to days; "
                        "non-trivial additionally requires at least one restart",
        quick=dict(runs=1200, budget_s=45), thorough=dict(runs=60000, budget_s=1200, det_runs=32),
        must_probes=dict(quick=["restart", "runs_reaching_L1"], thorough=["restart", "runs_reaching_L1", "runs_reaching_L2"]),
    ),
    "C03": dict(
        pkg="engine", level="fault_enumeration", rule=CRASH_RULE, eval_is_oracle=True,
        quick=dict(runs=96, budget_s=50, det_runs=3), thorough=dict(runs=4000, budget_s=1500, det_runs=8),
        must_probes=dict(quick=["crash_with_inflight_commit", "recovery_multi_wal", "recovery_wal_and_tables"],
                         thorough=["crash_with_inflight_commit", "recovery_multi_wal", "recovery_wal_and_tables"]),
    ),
    "C04": dict(
        pkg="engine", level="fault_enumeration", rule=CRASH_RULE + "; oracle: the commit in flight at the crash is visible for all or none of the keys whose old and new value differ",
        eval_is_oracle=True,
        quick=dict(runs=96, budget_s=50, det_runs=3), thorough=dict(runs=4000, budget_s=1500, det_runs=8),
        must_probes=dict(quick=["crash_with_inflight_multikey_commit"], thorough=["crash_with_inflight_multikey_commit"]),
    ),
    "C14": dict(
        pkg="engine", level="fault_enumeration",
        rule=CRASH_RULE + "; every image is additionally expanded into tail-cut variants: each file with bytes beyond its last "
                          "completed fsync is cut to {synced, synced+1, middle, len-1} and, for wal files, inside the length "
                          "prefix, at record boundaries and inside record bodies (product over files up to 16 variants, else a "
                          "sample that always contains everything-cut-to-synced); only variants with at least one cut are run here",
        eval_is_oracle=True,
        quick=dict(runs=64, budget_s=50, det_runs=3), thorough=dict(runs=3000, budget_s=1500, det_runs=8),
        must_probes=dict(quick=["crash_with_inflight_commit"], thorough=["crash_with_inflight_commit"]),
    ),
}
