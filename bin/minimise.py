"""Delta debugging of a confirmed violation's case (bounded, best effort).

The case of a replay file is a JSON document; every list of structured elements
in it (clients, actions, operations, callers, entries, ...) is a reduction
dimension. A candidate is kept iff a fresh worker process still reports a
violation with the same (oracle, class). Candidates are evaluated in parallel.
"""
import copy
import json
import os
import time

BUDGET_S = float(os.environ.get("VERIF_MINIMISE_S", "60"))
SKIP_KEYS = {"configs", "keys"}  # referenced by index / needed verbatim


def list_paths(node, path=()):
    """Yield paths of reducible lists (lists whose elements are dicts or lists)."""
    if isinstance(node, dict):
        for k, v in node.items():
            if k in SKIP_KEYS:
                continue
            yield from list_paths(v, path + (k,))
    elif isinstance(node, list):
        if node and all(isinstance(x, (dict, list)) for x in node):
            yield path
        for i, v in enumerate(node):
            yield from list_paths(v, path + (i,))


def get(node, path):
    for p in path:
        node = node[p]
    return node


def size(case):
    n = 0
    for p in list_paths(case):
        n += len(get(case, p))
    return n


def minimise(prop, tier, seed, binary, scratch, rp, rf, timeout, run_workers, race=False):
    t0 = time.time()
    want = (rf["violation"]["oracle"], rf["violation"]["class"])
    best = rf["case"]
    mdir = os.path.join(scratch, "min")
    os.makedirs(mdir, exist_ok=True)
    counter = [0]

    def evaluate(cands):
        """cands: list of cases -> list of (ok, found-entry)"""
        jobs, files = [], []
        for c in cands:
            counter[0] += 1
            f = os.path.join(mdir, "cand%d.json" % counter[0])
            with open(f, "w") as fh:
                json.dump(dict(property=prop, violation=rf["violation"], case=c), fh)
            files.append(f)
            jobs.append(dict(prop=prop, tier=tier, seed_base=seed, first=0, count=1, stride=1, budget_s=0, replay=f))
        sub = os.path.join(mdir, "run%d" % counter[0])
        os.makedirs(sub, exist_ok=True)
        try:
            outs = run_workers(binary, jobs, sub, timeout, race=race, deaths=[])
        except SystemExit:
            return [(False, None)] * len(cands)
        res = []
        for o in outs:
            hit = [f for f in (o.get("found") or []) if (f["oracle"], f["class"]) == want]
            res.append((bool(hit), hit[0] if hit else None))
        return res

    start = size(best)
    last_hit = None
    progress = True
    while progress and time.time() - t0 < BUDGET_S:
        progress = False
        for path in sorted(set(list_paths(best)), key=lambda p: (len(p), str(p))):
            try:
                lst = get(best, path)
            except (KeyError, IndexError, TypeError):
                continue
            n = len(lst)
            if n == 0:
                continue
            chunk = max(1, n // 2)
            while chunk >= 1 and time.time() - t0 < BUDGET_S:
                cands, spans = [], []
                lst = get(best, path)
                n = len(lst)
                i = 0
                while i < n and len(cands) < 16:
                    c = copy.deepcopy(best)
                    l2 = get(c, path)
                    del l2[i:i + chunk]
                    if len(l2) > 0 or len(path) > 1:
                        cands.append(c)
                        spans.append(i)
                    i += chunk
                if not cands:
                    break
                res = evaluate(cands)
                took = False
                for (ok, hit), c in zip(res, cands):
                    if ok:
                        best = c
                        last_hit = hit
                        progress = took = True
                        break
                if not took:
                    if chunk == 1:
                        break
                    chunk //= 2
    if last_hit is None:
        return rp
    orig = rp[:-5] + ".orig.json"
    os.replace(rp, orig)
    out = dict(rf)
    out["case"] = best
    out["event_log_hash"] = last_hit["hash"]
    out["violation"] = {k: last_hit[k] for k in ("prop", "oracle", "class", "msg", "key", "seq") if k in last_hit}
    out["note"] = (rf.get("note", "") + "; minimised by delta debugging (%d -> %d list elements, %d candidates, %.0fs); original case in %s"
                   % (start, size(best), counter[0], time.time() - t0, orig))
    with open(rp, "w") as fh:
        json.dump(out, fh, indent=1)
    print("minimised %s: %d -> %d list elements (%d candidates)" % (os.path.basename(rp), start, size(best), counter[0]))
    return rp
