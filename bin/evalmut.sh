#!/bin/bash
# evalmut.sh <patch.diff> <prop> [<prop> ...]
# Apply a seeded change to /repo, run the quick check of each property, undo the change.
# Prints one line per property: DETECTED / missed / BROKEN(exit 2).
patch=$(readlink -f "$1"); shift
cd /repo || exit 2
git diff --quiet || { echo "/repo is dirty"; exit 2; }
git apply "$patch" || { echo "patch does not apply"; exit 2; }
# evidence written while /repo is changed is not evidence about /repo: put the files back afterwards
ev=$(mktemp -d /dev/shm/evidence-keep-XXXX); cp -a /verif/evidence/. $ev/
trap 'cd /repo && git checkout -- . && git clean -fdq -e export_verif.go >/dev/null 2>&1; cp -a $ev/. /verif/evidence/; rm -rf $ev' EXIT
( GOTOOLCHAIN=local GOFLAGS=-mod=mod GOPROXY=off go1.26.8 build ./... ) || { echo "does not build"; exit 2; }
cd /verif
for p in "$@"; do
  out=$(env ${BUDGET:+VERIF_BUDGET_S=$BUDGET} bin/check $p quick 2>&1); rc=$?
  case $rc in
    0) echo "$p missed   $(echo "$out" | tail -1 | cut -c1-120)";;
    1) echo "$p DETECTED $(echo "$out" | grep -m1 '^violation:' | cut -c1-260)";;
    *) echo "$p BROKEN($rc) $(echo "$out" | tail -2 | tr '\n' ' ' | cut -c1-260)";;
  esac
done
