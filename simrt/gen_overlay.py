#!/usr/bin/env python3
"""Generate the standard-library overlay that puts the simulator's seams below /repo.

Reads the pinned toolchain sources (GOROOT/src), inserts hook calls at exact-match
anchors and writes the patched copies plus overlay.json under <out>.  Aborts with
exit status 2 if an anchor does not occur exactly once (toolchain changed).
"""
import json
import os
import sys

GOROOT = os.environ.get("VERIF_GOROOT", "/opt/veriftools/go1.26.8")
OUT = sys.argv[1] if len(sys.argv) > 1 else "/verif/build"


def die(msg):
    sys.stderr.write("gen_overlay: " + msg + "\n")
    sys.exit(2)


def patch(src, edits):
    path = os.path.join(GOROOT, "src", src)
    with open(path) as f:
        text = f.read()
    for old, new in edits:
        n = text.count(old)
        if n != 1:
            die("%s: anchor occurs %d times (want 1): %r" % (src, n, old[:70]))
        text = text.replace(old, new)
    return text


files = {}

# ---------------------------------------------------------------- runtime
files["runtime/verif.go"] = r'''
package runtime

import (
	"internal/runtime/sys"
	"unsafe"
)

// Hook variables of the verification simulator. All nil by default: the patched
// functions then behave exactly like the originals after one nil test.
var (
	verifChanHook  func(kind int, c unsafe.Pointer, pc uintptr)
	verifSelHook   func(n uint32) (uint32, bool)
	verifMapHook   func() (uint64, bool)
	verifSpawnHook func(fn unsafe.Pointer, pc uintptr) unsafe.Pointer
)

// VerifSetHooks installs (or, with nils, removes) the simulator hooks.
func VerifSetHooks(ch func(kind int, c unsafe.Pointer, pc uintptr),
	sel func(n uint32) (uint32, bool),
	mp func() (uint64, bool),
	sp func(fn unsafe.Pointer, pc uintptr) unsafe.Pointer) {
	verifChanHook = ch
	verifSelHook = sel
	verifMapHook = mp
	verifSpawnHook = sp
}

// VerifGoid returns the id of the calling goroutine.
func VerifGoid() uint64 { return getg().goid }

// VerifInBubble reports whether the calling goroutine is inside a synctest bubble.
func VerifInBubble() bool { return getg().bubble != nil }

func verifRandn(n uint32) uint32 {
	if h := verifSelHook; h != nil && getg().bubble != nil {
		if v, ok := h(n); ok {
			return v % n
		}
	}
	return cheaprandn(n)
}

func verifCallerPC() uintptr { return sys.GetCallerPC() }
'''

files["runtime/chan.go"] = patch("runtime/chan.go", [
    ("""//go:nosplit
func chansend1(c *hchan, elem unsafe.Pointer) {
	chansend(c, elem, true, sys.GetCallerPC())
}
""", """func chansend1(c *hchan, elem unsafe.Pointer) {
	pc := sys.GetCallerPC()
	if h := verifChanHook; h != nil && getg().bubble != nil {
		h(0, unsafe.Pointer(c), pc)
		chansend(c, elem, true, pc)
		h(1, unsafe.Pointer(c), pc)
		return
	}
	chansend(c, elem, true, pc)
}
"""),
    ("""//go:nosplit
func chanrecv1(c *hchan, elem unsafe.Pointer) {
	chanrecv(c, elem, true)
}
""", """func chanrecv1(c *hchan, elem unsafe.Pointer) {
	if h := verifChanHook; h != nil && getg().bubble != nil {
		pc := sys.GetCallerPC()
		h(2, unsafe.Pointer(c), pc)
		chanrecv(c, elem, true)
		h(3, unsafe.Pointer(c), pc)
		return
	}
	chanrecv(c, elem, true)
}
"""),
    ("""//go:nosplit
func chanrecv2(c *hchan, elem unsafe.Pointer) (received bool) {
	_, received = chanrecv(c, elem, true)
	return
}
""", """func chanrecv2(c *hchan, elem unsafe.Pointer) (received bool) {
	if h := verifChanHook; h != nil && getg().bubble != nil {
		pc := sys.GetCallerPC()
		h(2, unsafe.Pointer(c), pc)
		_, received = chanrecv(c, elem, true)
		h(3, unsafe.Pointer(c), pc)
		return
	}
	_, received = chanrecv(c, elem, true)
	return
}
"""),
    ("""func closechan(c *hchan) {
	if c == nil {
""", """func closechan(c *hchan) {
	if h := verifChanHook; h != nil && getg().bubble != nil {
		h(4, unsafe.Pointer(c), sys.GetCallerPC())
	}
	if c == nil {
"""),
])

files["runtime/select.go"] = patch("runtime/select.go", [
    ("""func selectgo(cas0 *scase, order0 *uint16, pc0 *uintptr, nsends, nrecvs int, block bool) (int, bool) {
	gp := getg()
""", """func selectgo(cas0 *scase, order0 *uint16, pc0 *uintptr, nsends, nrecvs int, block bool) (int, bool) {
	if h := verifChanHook; h != nil && getg().bubble != nil {
		pc := sys.GetCallerPC()
		h(5, nil, pc)
		i, ok := selectgo0(cas0, order0, pc0, nsends, nrecvs, block)
		h(6, nil, pc)
		return i, ok
	}
	return selectgo0(cas0, order0, pc0, nsends, nrecvs, block)
}

func selectgo0(cas0 *scase, order0 *uint16, pc0 *uintptr, nsends, nrecvs int, block bool) (int, bool) {
	gp := getg()
"""),
    ("j := cheaprandn(uint32(norder + 1))", "j := verifRandn(uint32(norder + 1))"),
])

files["runtime/proc.go"] = patch("runtime/proc.go", [
    ("""func newproc(fn *funcval) {
	gp := getg()
	pc := sys.GetCallerPC()
""", """func newproc(fn *funcval) {
	gp := getg()
	pc := sys.GetCallerPC()
	if h := verifSpawnHook; h != nil && gp.bubble != nil {
		if w := h(unsafe.Pointer(fn), pc); w != nil {
			fn = (*funcval)(w)
		}
	}
"""),
])

files["runtime/rand.go"] = patch("runtime/rand.go", [
    # the compiler seeds stack-allocated maps with a direct call of runtime.rand:
    # rand becomes a hookable wrapper, the generator itself moves to rand0
    ("""//go:nosplit
//go:linkname rand
func rand() uint64 {
""", """//go:linkname rand
func rand() uint64 {
	if h := verifMapHook; h != nil {
		if gp := getg(); gp.bubble != nil && gp.m != nil && gp.m.curg == gp && gp.m.locks == 0 {
			if v, ok := h(); ok {
				return v
			}
		}
	}
	return rand0()
}

//go:nosplit
func rand0() uint64 {
"""),
    ("""func maps_rand() uint64 {
	return rand()
}
""", """func maps_rand() uint64 {
	if h := verifMapHook; h != nil && getg().bubble != nil {
		if v, ok := h(); ok {
			return v
		}
	}
	return rand0()
}
"""),
    ("""	mp.cheaprand = rand()
""", """	mp.cheaprand = rand0()
"""),
    ("""	return uint32((uint64(uint32(rand())) * uint64(n)) >> 32)
""", """	return uint32((uint64(uint32(rand0())) * uint64(n)) >> 32)
"""),
    ("""func legacy_fastrand() uint32 {
	return uint32(rand())
}""", """func legacy_fastrand() uint32 {
	return uint32(rand0())
}"""),
    ("""func legacy_fastrand64() uint64 {
	return rand()
}""", """func legacy_fastrand64() uint64 {
	return rand0()
}"""),
])

# per-process random hash keys make the layout (hence the iteration order) of
# maps with more than one group differ from process to process: fix them
files["runtime/alg.go"] = patch("runtime/alg.go", [
    ("		hashkey[i] = uintptr(bootstrapRand())", "		hashkey[i] = uintptr(uint64(i+1) * 0x9e3779b97f4a7c15)"),
    ("		key[i] = bootstrapRand()", "		key[i] = uint64(i+1) * 0xbf58476d1ce4e5b9"),
])

# ---------------------------------------------------------------- sync
files["sync/verif.go"] = r'''
package sync

import "unsafe"

// VerifLockHook, when set, is called at the start of Mutex.Lock (kind 0),
// RWMutex.RLock (kind 1) and RWMutex.Lock (kind 2), before anything else.
var VerifLockHook func(m unsafe.Pointer, kind int)

// VerifPoolHook, when set, may take over Pool.Get (put=false; result x) and
// Pool.Put (put=true); it reports whether it did.
var VerifPoolHook func(p *Pool, x any, put bool) (any, bool)
'''

files["sync/mutex.go"] = patch("sync/mutex.go", [
    ("""func (m *Mutex) Lock() {
	m.mu.Lock()
""", """func (m *Mutex) Lock() {
	if h := VerifLockHook; h != nil {
		h(unsafe.Pointer(m), 0)
	}
	m.mu.Lock()
"""),
    ("""import (
	isync "internal/sync"
)""", """import (
	isync "internal/sync"
	"unsafe"
)"""),
])

files["sync/rwmutex.go"] = patch("sync/rwmutex.go", [
    ("""func (rw *RWMutex) RLock() {
	if race.Enabled {""", """func (rw *RWMutex) RLock() {
	if h := VerifLockHook; h != nil {
		h(unsafe.Pointer(rw), 1)
	}
	if race.Enabled {"""),
    ("""func (rw *RWMutex) Lock() {
	if race.Enabled {""", """func (rw *RWMutex) Lock() {
	if h := VerifLockHook; h != nil {
		h(unsafe.Pointer(rw), 2)
	}
	if race.Enabled {"""),
])

files["sync/pool.go"] = patch("sync/pool.go", [
    ("""func (p *Pool) Put(x any) {
	if x == nil {
		return
	}
""", """func (p *Pool) Put(x any) {
	if x == nil {
		return
	}
	if h := VerifPoolHook; h != nil {
		if _, ok := h(p, x, true); ok {
			return
		}
	}
"""),
    ("""func (p *Pool) Get() any {
	if race.Enabled {""", """func (p *Pool) Get() any {
	if h := VerifPoolHook; h != nil {
		if x, ok := h(p, nil, false); ok {
			if x == nil && p.New != nil {
				x = p.New()
			}
			return x
		}
	}
	if race.Enabled {"""),
])

# ---------------------------------------------------------------- os
files["os/verif.go"] = r'''
package os

// VerifFSHook, when set, is called before every mutating file operation with
// the operation code, the file name(s) and a size argument. A non-nil error is
// returned to the caller instead of performing the operation.
var VerifFSHook func(op int, name, name2 string, n int64) error

const (
	VerifOpOpen = iota
	VerifOpWrite
	VerifOpSync
	VerifOpFtruncate
	VerifOpClose
	VerifOpRemove
	VerifOpRename
	VerifOpTruncate
	VerifOpMkdir
	VerifOpRemoveAll
)

func verifFileName(f *File) string {
	if f == nil || f.file == nil {
		return ""
	}
	return f.name
}
'''

files["os/file.go"] = patch("os/file.go", [
    ("""func (f *File) ReadFrom(r io.Reader) (n int64, err error) {
""", """func (f *File) ReadFrom(r io.Reader) (n int64, err error) {
	if h := VerifFSHook; h != nil {
		if err := h(VerifOpWrite, verifFileName(f), "", -1); err != nil {
			return 0, err
		}
	}
"""),
    ("""func (f *File) Write(b []byte) (n int, err error) {
""", """func (f *File) Write(b []byte) (n int, err error) {
	if h := VerifFSHook; h != nil {
		if err := h(VerifOpWrite, verifFileName(f), "", int64(len(b))); err != nil {
			return 0, err
		}
	}
"""),
    ("""func (f *File) WriteAt(b []byte, off int64) (n int, err error) {
""", """func (f *File) WriteAt(b []byte, off int64) (n int, err error) {
	if h := VerifFSHook; h != nil {
		if err := h(VerifOpWrite, verifFileName(f), "", int64(len(b))); err != nil {
			return 0, err
		}
	}
"""),
    ("""func Mkdir(name string, perm FileMode) error {
""", """func Mkdir(name string, perm FileMode) error {
	if h := VerifFSHook; h != nil {
		if err := h(VerifOpMkdir, name, "", 0); err != nil {
			return err
		}
	}
"""),
    ("""func OpenFile(name string, flag int, perm FileMode) (*File, error) {
""", """func OpenFile(name string, flag int, perm FileMode) (*File, error) {
	if h := VerifFSHook; h != nil && flag&(O_CREATE|O_TRUNC) != 0 {
		if err := h(VerifOpOpen, name, "", int64(flag)); err != nil {
			return nil, err
		}
	}
"""),
    ("""func Rename(oldpath, newpath string) error {
""", """func Rename(oldpath, newpath string) error {
	if h := VerifFSHook; h != nil {
		if err := h(VerifOpRename, oldpath, newpath, 0); err != nil {
			return err
		}
	}
"""),
])

files["os/file_posix.go"] = patch("os/file_posix.go", [
    ("""func (f *File) Close() error {
	if f == nil {
		return ErrInvalid
	}
""", """func (f *File) Close() error {
	if f == nil {
		return ErrInvalid
	}
	if h := VerifFSHook; h != nil {
		if err := h(VerifOpClose, verifFileName(f), "", 0); err != nil {
			return err
		}
	}
"""),
    ("""func (f *File) Truncate(size int64) error {
""", """func (f *File) Truncate(size int64) error {
	if h := VerifFSHook; h != nil {
		if err := h(VerifOpFtruncate, verifFileName(f), "", size); err != nil {
			return err
		}
	}
"""),
    ("""func (f *File) Sync() error {
""", """func (f *File) Sync() error {
	if h := VerifFSHook; h != nil {
		if err := h(VerifOpSync, verifFileName(f), "", 0); err != nil {
			return err
		}
	}
"""),
])

files["os/file_unix.go"] = patch("os/file_unix.go", [
    ("""func Truncate(name string, size int64) error {
""", """func Truncate(name string, size int64) error {
	if h := VerifFSHook; h != nil {
		if err := h(VerifOpTruncate, name, "", size); err != nil {
			return err
		}
	}
"""),
    ("""func Remove(name string) error {
""", """func Remove(name string) error {
	if h := VerifFSHook; h != nil {
		if err := h(VerifOpRemove, name, "", 0); err != nil {
			return err
		}
	}
"""),
])

files["os/path.go"] = patch("os/path.go", [
    ("""func RemoveAll(path string) error {
""", """func RemoveAll(path string) error {
	if h := VerifFSHook; h != nil {
		if err := h(VerifOpRemoveAll, path, "", 0); err != nil {
			return err
		}
	}
"""),
])

# ---------------------------------------------------------------- testing/synctest
files["testing/synctest/verif.go"] = r'''
package synctest

import "internal/synctest"

// VerifRun runs f in a new bubble without a *testing.T (no per-bubble test
// bookkeeping, no race-error check that would fail the surrounding test).
func VerifRun(f func()) { synctest.Run(f) }
'''

overlay = {"Replace": {}}
std = os.path.join(OUT, "std")
for rel, text in files.items():
    dst = os.path.join(std, rel)
    os.makedirs(os.path.dirname(dst), exist_ok=True)
    old = None
    if os.path.exists(dst):
        with open(dst) as f:
            old = f.read()
    if old != text:  # keep mtimes stable: no needless rebuilds of std
        with open(dst, "w") as f:
            f.write(text)
    overlay["Replace"][os.path.join(GOROOT, "src", rel)] = dst

ov = os.path.join(OUT, "overlay.json")
new = json.dumps(overlay, indent=1, sort_keys=True)
old = None
if os.path.exists(ov):
    with open(ov) as f:
        old = f.read()
if old != new:
    with open(ov, "w") as f:
        f.write(new)
print("overlay: %d files -> %s" % (len(files), ov))
