package comp

import (
	"bytes"
	"fmt"
	"os"
	"sort"
	"strings"
	"testing"

	"github.com/B1NARY-GR0UP/originium"
	"github.com/B1NARY-GR0UP/originium/types"

	"verifsim/simrt"
	"verifsim/work"
)

// LMEnt is one versioned entry of a generated flush.
type LMEnt struct {
	Key  string `json:"key"`
	Ts   uint64 `json:"ts"`
	Val  string `json:"val,omitempty"`
	Tomb bool   `json:"tomb,omitempty"`
}

type LMAction struct {
	K     string  `json:"k"` // flush | compact | recover
	Flush []LMEnt `json:"flush,omitempty"`
}

type LMCase struct {
	Seed      uint64     `json:"seed"`
	L0        int        `json:"l0"`
	Ratio     int        `json:"ratio"`
	Block     int        `json:"block"`
	Watermark uint64     `json:"watermark"`
	Keys      []string   `json:"keys"`
	MaxTs     uint64     `json:"max_ts"`
	Actions   []LMAction `json:"actions"`
	Deep      bool       `json:"deep,omitempty"` // many small flushes: two-digit table indices, long-lived levels
}

var lmKeys = []string{"a", "a!", "a ", "a@", "a@1", "a@1@2", "aa", "ab", "b", "\x00", "zz~", "m", "n"}

// genLMDeep: 30-70 tiny flushes over a wide key space with disjoint ranges, so
// that a level accumulates more than ten tables (two-digit indices, file-name
// order differs from creation order) and handles are rebuilt in between.
func genLMDeep(seed uint64, r *simrt.SplitMix) *LMCase {
	c := &LMCase{Seed: seed, Deep: true, L0: []int{1, 2}[r.Intn(2)], Ratio: []int{3, 10}[r.Intn(2)], Block: []int{1, 64, 4096}[r.Intn(3)]}
	nk := 14 + r.Intn(12)
	for i := 0; i < nk; i++ {
		c.Keys = append(c.Keys, fmt.Sprintf("k%02d", i))
	}
	c.MaxTs = uint64(4 + r.Intn(5))
	c.Watermark = uint64(r.Intn(int(c.MaxTs) + 2))
	used := map[string]bool{}
	vid := 0
	n := 30 + r.Intn(41)
	for f := 0; f < n; f++ {
		k := c.Keys[r.Intn(len(c.Keys))]
		var es []LMEnt
		for j := 0; j < 1+r.Intn(2); j++ {
			ts := uint64(1 + r.Intn(int(c.MaxTs)))
			id := fmt.Sprintf("%s@%d", k, ts)
			if used[id] {
				continue
			}
			used[id] = true
			vid++
			e := LMEnt{Key: k, Ts: ts, Val: fmt.Sprintf("v%d", vid), Tomb: r.Intn(5) == 0}
			if e.Tomb {
				e.Val = ""
			}
			es = append(es, e)
		}
		if len(es) == 0 {
			continue
		}
		sort.Slice(es, func(i, j int) bool {
			return types.CompareKeys(types.KeyWithTs(es[i].Key, es[i].Ts), types.KeyWithTs(es[j].Key, es[j].Ts)) < 0
		})
		c.Actions = append(c.Actions, LMAction{K: "flush", Flush: es}, LMAction{K: "compact"})
		if r.Intn(9) == 0 {
			c.Actions = append(c.Actions, LMAction{K: "recover"})
		}
	}
	c.Actions = append(c.Actions, LMAction{K: "recover"}, LMAction{K: "compact"})
	return c
}

func GenLM(seed uint64) *LMCase {
	r := simrt.NewSplitMix(seed*0x9e3779b97f4a7c15 + 0x910)
	if r.Intn(8) == 0 {
		return genLMDeep(seed, &r)
	}
	c := &LMCase{Seed: seed, L0: []int{1, 2, 4}[r.Intn(3)], Ratio: []int{1, 2, 3, 10}[r.Intn(4)], Block: []int{1, 16, 64, 4096}[r.Intn(4)]}
	nk := 2 + r.Intn(7)
	c.Keys = append([]string{"a", "a!"}, lmKeys[2:nk]...)
	c.MaxTs = uint64(3 + r.Intn(14))
	c.Watermark = uint64(r.Intn(int(c.MaxTs) + 2))
	used := map[string]bool{}
	nflush := 1 + r.Intn(7)
	vid := 0
	for f := 0; f < nflush; f++ {
		n := 1 + r.Intn(12)
		if r.Intn(4) == 0 {
			n = 1 + r.Intn(30)
		}
		var es []LMEnt
		// a flush holds a range of the key space or all of it (overlapping and disjoint tables)
		lo, hi := 0, len(c.Keys)
		if r.Intn(2) == 0 {
			lo = r.Intn(len(c.Keys))
			hi = lo + 1 + r.Intn(len(c.Keys)-lo)
		}
		for i := 0; i < n; i++ {
			k := c.Keys[lo+r.Intn(hi-lo)]
			ts := uint64(1 + r.Intn(int(c.MaxTs)))
			id := fmt.Sprintf("%s@%d", k, ts)
			if used[id] {
				continue // a versioned key is written once (one commit timestamp per transaction)
			}
			used[id] = true
			vid++
			e := LMEnt{Key: k, Ts: ts, Val: fmt.Sprintf("v%d", vid), Tomb: r.Intn(4) == 0}
			if e.Tomb {
				e.Val = ""
			} else if r.Intn(10) == 0 {
				e.Val = "" // empty but present
			} else if r.Intn(4) == 0 {
				// now and then an entry larger than a small data block
				e.Val += "-" + strings.Repeat("x", 10+r.Intn(120))
			}
			es = append(es, e)
		}
		if len(es) == 0 {
			continue
		}
		sort.Slice(es, func(i, j int) bool {
			return types.CompareKeys(types.KeyWithTs(es[i].Key, es[i].Ts), types.KeyWithTs(es[j].Key, es[j].Ts)) < 0
		})
		c.Actions = append(c.Actions, LMAction{K: "flush", Flush: es})
		switch r.Intn(6) {
		case 0, 1, 2:
			c.Actions = append(c.Actions, LMAction{K: "compact"})
		case 3:
			c.Actions = append(c.Actions, LMAction{K: "recover"})
		}
	}
	c.Actions = append(c.Actions, LMAction{K: "compact"})
	if r.Intn(2) == 0 {
		c.Actions = append(c.Actions, LMAction{K: "recover"}, LMAction{K: "compact"})
	}
	return c
}

type lmAnswer struct {
	found   bool
	version int64
	tomb    bool
	val     string
}

func (a lmAnswer) get() string {
	if !a.found || a.tomb {
		return "<not found>"
	}
	return "value:" + a.val
}

// bruteForce: the entry of key with the largest version <= ts over all tables.
func bruteForce(tabs []originium.VerifTable, key string, ts uint64) lmAnswer {
	var best lmAnswer
	for _, t := range tabs {
		for _, e := range t.Entries {
			if types.ParseKey(e.Key) != key {
				continue
			}
			v := types.ParseTs(e.Key)
			if v > ts {
				continue
			}
			if !best.found || int64(v) > best.version {
				best = lmAnswer{found: true, version: int64(v), tomb: e.Tombstone, val: string(e.Value)}
			}
		}
	}
	return best
}

// RunLM drives a real levelManager through generated flushes, compactions and
// handle rebuilds. C10: after every action the real lookup equals the brute
// force over the decoded tables for every (key, ts). C09: every compaction
// leaves the Get-level answer of every (key, ts >= watermark) unchanged, and
// the final answers equal those computed from everything that was flushed.
func RunLM(t *testing.T, c *LMCase, prop string, trace bool) *work.RunOut {
	ro := &work.RunOut{Case: c, Seed: c.Seed, Probes: map[string]int{}, Details: map[string]string{}}
	dir, err := os.MkdirTemp("/dev/shm", "verif-lm-")
	if err != nil {
		panic(err)
	}
	defer os.RemoveAll(dir)
	var viol []work.Violation
	add := func(oracle, class, msg string) {
		for _, v := range viol {
			if v.Class == class {
				return
			}
		}
		viol = append(viol, work.Violation{Oracle: oracle, Class: class, Msg: msg})
	}
	evals := 0
	var lms []*originium.VerifLM
	queryKeys := append(append([]string{}, c.Keys...), "absent", "a!!", "zzz")
	s := simrt.Run(t, simrt.Options{Seed: c.Seed, Dir: dir, PoolSim: true,
		Teardown: func(*simrt.Sim) {
			for _, l := range lms {
				func() { defer func() { recover() }(); l.Stop() }()
			}
		}}, func(s *simrt.Sim) {
		defer func() {
			if r := recover(); r != nil {
				add("fatal", "panic", fmt.Sprintf("panic: %v", r))
			}
		}()
		cfg := originium.Config{L0TargetNum: c.L0, LevelRatio: c.Ratio, DataBlockByteThreshold: c.Block}
		lm := originium.VerifNewLM(dir, cfg, c.Watermark)
		lms = append(lms, lm)
		s.WaitUntil("watermark", func() bool { return lm.Watermark() == c.Watermark })
		var flushed []types.Entry // everything ever handed to flush
		checkLookups := func(stage string) []originium.VerifTable {
			tabs := lm.Tables()
			for _, k := range queryKeys {
				for ts := uint64(0); ts <= c.MaxTs+1; ts++ {
					evals++
					want := bruteForce(tabs, k, ts)
					got, ok := lm.Lookup(types.KeyWithTs(k, ts))
					switch {
					case ok != want.found:
						add("lookup", "found-mismatch", fmt.Sprintf("%s: lookup(%q@%d) found=%v, the tables hold %+v", stage, k, ts, ok, want))
					case ok && (types.ParseKey(got.Key) != k || int64(types.ParseTs(got.Key)) != want.version || got.Tombstone != want.tomb || string(got.Value) != want.val):
						add("lookup", "wrong-version", fmt.Sprintf("%s: lookup(%q@%d) = {%q tomb=%v %q}, newest version <= ts in the tables is {version %d tomb=%v %q}", stage, k, ts, got.Key, got.Tombstone, got.Value, want.version, want.tomb, want.val))
					}
				}
			}
			return tabs
		}
		for ai, a := range c.Actions {
			stage := fmt.Sprintf("after action %d (%s)", ai, a.K)
			switch a.K {
			case "flush":
				var es []types.Entry
				for _, e := range a.Flush {
					es = append(es, types.Entry{Key: types.KeyWithTs(e.Key, e.Ts), Value: []byte(e.Val), Tombstone: e.Tomb, Version: int64(e.Ts)})
				}
				flushed = append(flushed, es...)
				if err := lm.Flush(es); err != nil {
					add("fatal", "flush-error", err.Error())
					return
				}
				ro.Probes["flushes"]++
			case "compact":
				before := lm.Tables()
				realBefore := realAnswers(lm, queryKeys, c.Watermark, c.MaxTs+1)
				lm.Compact()
				after := lm.Tables()
				if len(before) != len(after) || tablesDiffer(before, after) {
					ro.Probes["compactions_that_changed_tables"]++
					maxLevel := 0
					for _, tb := range after {
						if tb.Level > maxLevel {
							maxLevel = tb.Level
						}
					}
					if maxLevel >= 2 {
						ro.Probes["compaction_reached_L2"]++
					}
					nb, na := 0, 0
					for _, tb := range before {
						nb += len(tb.Entries)
					}
					for _, tb := range after {
						na += len(tb.Entries)
					}
					if na < nb {
						ro.Probes["versions_discarded"] += nb - na
					}
					// C09: answers at or above the watermark are unchanged
					for _, k := range queryKeys {
						for ts := c.Watermark; ts <= c.MaxTs+1; ts++ {
							evals++
							b, a2 := bruteForce(before, k, ts), bruteForce(after, k, ts)
							if b.get() != a2.get() {
								add("compaction", "answer-changed", fmt.Sprintf("compaction (action %d, watermark %d) changed the answer for %q at ts %d: before %s (version %d), after %s (version %d)", ai, c.Watermark, k, ts, b.get(), b.version, a2.get(), a2.version))
							}
						}
					}
					// ... also as the engine's own lookup sees it (a compaction output that
					// holds the right entries in the wrong order answers differently); only
					// where the lookup was right before, so that a lookup defect stays C10's
					realAfter := realAnswers(lm, queryKeys, c.Watermark, c.MaxTs+1)
					i := 0
					for _, k := range queryKeys {
						for ts := c.Watermark; ts <= c.MaxTs+1; ts++ {
							evals++
							if rb, ra := realBefore[i], realAfter[i]; rb == bruteForce(before, k, ts).get() && ra != rb {
								add("compaction", "lookup-answer-changed", fmt.Sprintf("compaction (action %d, watermark %d) changed what the engine's lookup answers for %q at ts %d: before %s, after %s", ai, c.Watermark, k, ts, rb, ra))
							}
							i++
						}
					}
				}
			case "recover":
				n, _ := lm.Recover()
				lm = n
				ro.Probes["handles_rebuilt"]++
			}
			if !c.Deep || ai%8 == 7 || ai == len(c.Actions)-1 {
				checkLookups(stage)
			}
		}
		// everything flushed is still answered correctly at or above the watermark
		all := []originium.VerifTable{{Entries: flushed}}
		tabs := lm.Tables()
		for _, k := range queryKeys {
			for ts := c.Watermark; ts <= c.MaxTs+1; ts++ {
				evals++
				w, g := bruteForce(all, k, ts), bruteForce(tabs, k, ts)
				if w.get() != g.get() {
					add("compaction", "vs-inputs", fmt.Sprintf("final tables answer %q at ts %d with %s (version %d); from everything flushed it is %s (version %d); watermark %d", k, ts, g.get(), g.version, w.get(), w.version, c.Watermark))
				}
			}
		}
		nt := len(tabs)
		ro.Probes["tables_at_end"] += nt
		for _, tb := range tabs {
			if tb.Idx >= 10 {
				ro.Probes["two_digit_table_index"]++
				break
			}
		}
		if c.Deep {
			ro.Probes["deep_runs"]++
		}
	})
	if s.Abort != "" {
		add("fatal", "panic", s.Abort)
	}
	for _, v := range viol {
		mine := v.Oracle == "fatal" || (prop == "C10" && v.Oracle == "lookup") || (prop == "C09" && v.Oracle == "compaction")
		if mine {
			ro.Mine = append(ro.Mine, v)
		} else {
			if ro.Foreign == nil {
				ro.Foreign = map[string]int{}
			}
			ro.Foreign[v.Oracle+":"+v.Class]++
		}
	}
	ro.Evaluations = evals
	ro.Hash = fmt.Sprintf("%016x", s.Hash^c.Seed*0x9e3779b97f4a7c15)
	ro.Steps, ro.Switches, ro.Pairs = s.Steps, s.Switches, s.SwitchPairs
	if s.FS != nil {
		ro.FSOps = s.FS.Ops
	}
	if c.Block == 1 {
		ro.Probes["one_entry_per_block_runs"]++
	}
	ro.SimNS = s.SimEnd.Sub(s.SimStart).Nanoseconds()
	ro.Nontrivial = ro.Probes["flushes"] > 0 && (prop == "C10" || ro.Probes["compactions_that_changed_tables"] > 0)
	ro.Sample = map[string]any{"case": c, "oracle": "C10: real lookup == brute force over decoded tables for every (key, ts); C09: Get-level answers for ts >= watermark unchanged by every compaction and equal to those of everything flushed"}
	return ro
}

// realAnswers: the Get-level answer of the engine's own table lookup for every
// (key, ts) with watermark <= ts <= maxTs, in a fixed order.
func realAnswers(lm *originium.VerifLM, keys []string, watermark, maxTs uint64) []string {
	var res []string
	for _, k := range keys {
		for ts := watermark; ts <= maxTs; ts++ {
			e, ok := lm.Lookup(types.KeyWithTs(k, ts))
			if !ok || e.Tombstone {
				res = append(res, "<not found>")
			} else {
				res = append(res, "value:"+string(e.Value))
			}
		}
	}
	return res
}

func tablesDiffer(a, b []originium.VerifTable) bool {
	for i := range a {
		if a[i].Level != b[i].Level || a[i].Idx != b[i].Idx || len(a[i].Entries) != len(b[i].Entries) {
			return true
		}
		for j := range a[i].Entries {
			if a[i].Entries[j].Key != b[i].Entries[j].Key || !bytes.Equal(a[i].Entries[j].Value, b[i].Entries[j].Value) {
				return true
			}
		}
	}
	return false
}
