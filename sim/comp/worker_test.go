package comp

import (
	"encoding/json"
	"testing"

	"verifsim/work"
)

func TestWorker(t *testing.T) {
	runners := map[string]work.Runner{
		"C13": func(t *testing.T, seed uint64, tier string, replay json.RawMessage, trace bool) *work.RunOut {
			var c *WMCase
			if replay != nil {
				c = &WMCase{}
				if err := json.Unmarshal(replay, c); err != nil {
					t.Fatal(err)
				}
			} else {
				c = GenWM(seed)
			}
			return RunWM(t, c, trace)
		},
		"C17": func(t *testing.T, seed uint64, tier string, replay json.RawMessage, trace bool) *work.RunOut {
			var c *SLCase
			if replay != nil {
				c = &SLCase{}
				if err := json.Unmarshal(replay, c); err != nil {
					t.Fatal(err)
				}
			} else {
				c = GenSL(seed)
			}
			return RunSL(t, c, trace)
		},
	}
	for k, v := range extraRunners {
		runners[k] = v
	}
	work.Main(t, runners, nil)
}

var extraRunners = map[string]work.Runner{}
