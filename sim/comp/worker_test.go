package comp

import (
	"encoding/json"
	"testing"

	"verifsim/work"
)

func TestWorker(t *testing.T) {
	runners := map[string]work.Runner{
		"C13": func(t *testing.T, seed uint64, tier string, replay json.RawMessage, trace bool) *work.RunOut {
			var c *WMCase
			if replay != nil {
				c = &WMCase{}
				if err := json.Unmarshal(replay, c); err != nil {
					t.Fatal(err)
				}
			} else {
				c = GenWM(seed)
			}
			return RunWM(t, c, trace)
		},
		"C17": func(t *testing.T, seed uint64, tier string, replay json.RawMessage, trace bool) *work.RunOut {
			var c *SLCase
			if replay != nil {
				c = &SLCase{}
				if err := json.Unmarshal(replay, c); err != nil {
					t.Fatal(err)
				}
			} else {
				c = GenSL(seed)
			}
			return RunSL(t, c, trace)
		},
	}
	runners["C11"] = func(t *testing.T, seed uint64, tier string, replay json.RawMessage, trace bool) *work.RunOut {
		var c *CodecCase
		if replay != nil {
			c = &CodecCase{}
			if err := json.Unmarshal(replay, c); err != nil {
				t.Fatal(err)
			}
		} else {
			c = GenCodec(seed, tier)
		}
		return RunCodec(t, c, trace)
	}
	for _, prop := range []string{"C09", "C10"} {
		prop := prop
		runners[prop] = func(t *testing.T, seed uint64, tier string, replay json.RawMessage, trace bool) *work.RunOut {
			var c *LMCase
			if replay != nil {
				c = &LMCase{}
				if err := json.Unmarshal(replay, c); err != nil {
					t.Fatal(err)
				}
			} else {
				c = GenLM(seed)
			}
			return RunLM(t, c, prop, trace)
		}
	}
	for k, v := range extraRunners {
		runners[k] = v
	}
	work.Main(t, runners, nil)
}

var extraRunners = map[string]work.Runner{}
