// Package comp holds the component-level simulations: the watermark (C13),
// the skiplist (C17), the codecs and the wal (C11) and the level manager
// (C09, C10), each run as real code on the simulation runtime.
package comp

import (
	"context"
	"fmt"
	"sync"
	"testing"

	"github.com/B1NARY-GR0UP/originium/pkg/watermark"

	"verifsim/simrt"
	"verifsim/work"
)

// WMOp is one call of a caller task.
type WMOp struct {
	K      string `json:"k"`             // begin | done | wait | cancel | prime
	Idx    int    `json:"idx,omitempty"` // done: which of this caller's open begins (position); wait: offset below/above the current index; prime: index
	Adv    int    `json:"adv,omitempty"` // begin: advance the shared index by this much first
	Cancel bool   `json:"cancel,omitempty"`
}

type WMCase struct {
	Seed    uint64   `json:"seed"`
	Sim     SimOpts  `json:"sim"`
	Prime   int      `json:"prime"` // Done(prime) without Begin before anything else (as Open does); 0 = none
	Callers [][]WMOp `json:"callers"`
	Leave   int      `json:"leave"` // number of begins deliberately left unfinished
}

type SimOpts struct {
	Strategy string  `json:"strategy"`
	StickyP  float64 `json:"sticky_p,omitempty"`
	PCTDepth int     `json:"pct_depth,omitempty"`
}

func genSim(r *simrt.SplitMix) SimOpts {
	o := SimOpts{}
	switch r.Intn(10) {
	case 0, 1, 2:
		o.Strategy = simrt.StratRandom
	case 3, 4:
		o.Strategy = simrt.StratSticky
		o.StickyP = []float64{0.5, 0.9, 0.99}[r.Intn(3)]
	case 5, 6:
		o.Strategy = simrt.StratPCT
		o.PCTDepth = 1 + r.Intn(3)
	case 7, 8:
		o.Strategy = simrt.StratStarve
	default:
		o.Strategy = simrt.StratEager
	}
	return o
}

func GenWM(seed uint64) *WMCase {
	r := simrt.NewSplitMix(seed*0x9e3779b97f4a7c15 + 0x13)
	c := &WMCase{Seed: seed, Sim: genSim(&r)}
	if r.Intn(3) == 0 {
		c.Prime = 1 + r.Intn(50)
	}
	n := 1 + r.Intn(4)
	ops := 5 + r.Intn(40)
	if r.Intn(8) == 0 {
		ops = 120 + r.Intn(100) // more marks in flight than the channel buffer
		c.Sim.Strategy = simrt.StratStarve
	}
	if r.Intn(4) == 0 {
		c.Leave = 1 + r.Intn(3)
	}
	for i := 0; i < n; i++ {
		var l []WMOp
		open := 0
		for j := 0; j < ops; j++ {
			x := r.Intn(10)
			switch {
			case x < 4 || open == 0:
				adv := 0
				if r.Intn(2) == 0 {
					adv = 1 + r.Intn(3)
				}
				l = append(l, WMOp{K: "begin", Adv: adv})
				open++
			case x < 7:
				l = append(l, WMOp{K: "done", Idx: r.Intn(open)})
				open--
			case x < 8 && r.Intn(6) == 0:
				l = append(l, WMOp{K: "late", Idx: r.Intn(3)})
			case x == 8 && r.Intn(2) == 0:
				// Begin of a fresh index below the highest one begun so far (indices begun out of order)
				l = append(l, WMOp{K: "gap", Idx: r.Intn(4)})
				open++
			default:
				l = append(l, WMOp{K: "wait", Idx: r.Intn(5) - 3, Cancel: r.Intn(6) == 0})
			}
		}
		c.Callers = append(c.Callers, l)
	}
	return c
}

// wmModel is the reference: counts per index of Begin calls that returned and
// Done calls that were started.
type wmModel struct {
	begun   map[uint64]int // Begin calls returned
	doneReq map[uint64]int // Done calls started
	known   map[uint64]bool
	last    uint64 // DoneUntil at the previous step
	stoodAt map[uint64]bool // index i -> when some Begin(i) was called every earlier Begin(i) had its Done started: DoneUntil may legitimately stand at i
}

// expected returns the value DoneUntil must reach once everything sent has
// been processed: the largest known index below the smallest unfinished one.
func (m *wmModel) expected() uint64 {
	var minUnfinished uint64
	has := false
	for i, b := range m.begun {
		if b > m.doneReq[i] {
			if !has || i < minUnfinished {
				minUnfinished, has = i, true
			}
		}
	}
	var best uint64
	for i := range m.known {
		if has && i >= minUnfinished {
			continue
		}
		if i > best {
			best = i
		}
	}
	return best
}

func RunWM(t *testing.T, c *WMCase, trace bool) *work.RunOut {
	ro := &work.RunOut{Case: c, Seed: c.Seed, Strategy: c.Sim.Strategy, Probes: map[string]int{}, Details: map[string]string{}}
	m := &wmModel{begun: map[uint64]int{}, doneReq: map[uint64]int{}, known: map[uint64]bool{}, stoodAt: map[uint64]bool{}}
	var w *watermark.WaterMark
	var viol []work.Violation
	add := func(oracle, class, msg string) {
		for _, v := range viol {
			if v.Class == class {
				return
			}
		}
		viol = append(viol, work.Violation{Oracle: oracle, Class: class, Msg: msg})
	}
	var mu sync.Mutex // orders {choose index, Begin} like the engine's oracle lock
	next := uint64(0)
	type waiter struct {
		t         uint64
		cancel    context.CancelFunc
		ctx       context.Context
		done      bool
		cancelled bool
	}
	var waiters []*waiter
	steps := 0
	opt := simrt.Options{Seed: c.Seed, Strategy: c.Sim.Strategy, StickyP: c.Sim.StickyP, PCTDepth: c.Sim.PCTDepth, Trace: trace,
		OnStep: func(s *simrt.Sim) string {
			if w == nil {
				return ""
			}
			steps++
			du := w.DoneUntil()
			if du < m.last {
				add("m-wm", "decreased", fmt.Sprintf("DoneUntil went from %d to %d", m.last, du))
			}
			m.last = du
			for i, b := range m.begun {
				if b > m.doneReq[i] && (du > i || (du == i && !m.stoodAt[i])) {
					add("m-wm", "passed-unfinished", fmt.Sprintf("DoneUntil = %d although index %d was begun %d times and finished %d times", du, i, b, m.doneReq[i]))
				}
			}
			return ""
		},
		Teardown: func(s *simrt.Sim) {
			if w != nil {
				w.VerifStopNoWait()
			}
		},
	}
	s := simrt.Run(t, opt, func(s *simrt.Sim) {
		w = watermark.New()
		if c.Prime > 0 {
			// a Done without an outstanding Begin finishes nothing: it announces the
			// index (this is how Open initialises the marks); no credit for later Begins
			m.known[uint64(c.Prime)] = true
			w.Done(uint64(c.Prime))
			next = uint64(c.Prime)
			ro.Probes["done_without_begin"]++
		}
		left := len(c.Callers)
		for ci, prog := range c.Callers {
			ci, prog := ci, prog
			s.Go(fmt.Sprintf("caller%d", ci), true, func() {
				var open []uint64
				for _, op := range prog {
					switch op.K {
					case "begin":
						mu.Lock()
						next += uint64(op.Adv)
						idx := next
						if (m.known[idx] && m.doneReq[idx] >= m.begun[idx]) || w.DoneUntil() == idx {
							// the index is (being) finished: the mark may stand at idx when this Begin is processed
							m.stoodAt[idx] = true
							if w.DoneUntil() == idx {
								ro.Probes["begin_at_current_mark"]++
							}
						}
						m.known[idx] = true
						w.Begin(idx)
						if m.doneReq[idx] >= m.begun[idx] {
							// every earlier Begin(idx) had its Done under way before this Begin returned:
							// the mark may have reached idx before this Begin was queued
							m.stoodAt[idx] = true
						}
						m.begun[idx]++
						mu.Unlock()
						open = append(open, idx)
					case "gap":
						// Begin of an index that was skipped: lower than indices already begun, above the mark.
						// It is judged like any other index only when the mark provably stands below it at the
						// moment its Begin is processed: some lower index L, begun earlier, has not had its Done
						// requested even after this Begin was queued (the mark channel is FIFO). Otherwise the
						// mark may already have passed it (a legal "late" index) and it is finished at once,
						// outside the model.
						mu.Lock()
						var idx, low uint64
						found, haveLow := false, false
						for i, b := range m.begun {
							if b > m.doneReq[i] && (!haveLow || i < low) {
								low, haveLow = i, true
							}
						}
						if haveLow && next > 0 {
							skip := op.Idx
							for i := next - 1; i > low; i-- {
								if m.known[i] {
									continue
								}
								if skip == 0 {
									idx, found = i, true
									break
								}
								skip--
							}
						}
						if !found {
							mu.Unlock()
							continue
						}
						m.known[idx] = true
						w.Begin(idx)
						if m.begun[low] > m.doneReq[low] {
							m.begun[idx]++
							open = append(open, idx)
							ro.Probes["out_of_order_begin"]++
							mu.Unlock()
						} else {
							mu.Unlock()
							ro.Probes["out_of_order_begin_unjudged"]++
							w.Done(idx)
						}
					case "done":
						if len(open) == 0 {
							continue
						}
						k := op.Idx % len(open)
						idx := open[k]
						open = append(open[:k], open[k+1:]...)
						if k > 0 {
							ro.Probes["out_of_order_done"]++
						}
						m.doneReq[idx]++
						w.Done(idx)
					case "late":
						// an index at or below the current mark: only monotonicity is judged
						du := w.DoneUntil()
						if du == 0 {
							continue
						}
						idx := du - uint64(1+op.Idx%3)%du
						if idx > du {
							idx = du
						}
						if m.known[idx] && m.begun[idx] > m.doneReq[idx] {
							continue
						}
						ro.Probes["late_index_pair"]++
						w.Begin(idx)
						w.Done(idx)
					case "wait":
						tgt := int64(next) + int64(op.Idx)
						if tgt < 0 {
							tgt = 0
						}
						if !op.Cancel && c.Leave == 0 && uint64(tgt) <= next {
							// a wait that must complete by itself: everything at or below the target
							// will be finished; run it in its own task and never cancel it
							wt := &waiter{t: uint64(tgt), ctx: context.Background(), cancelled: true}
							waiters = append(waiters, wt)
							left++
							s.Go("sure-waiter", true, func() {
								err := w.WaitForMark(wt.ctx, wt.t)
								wt.done = true
								if du := w.DoneUntil(); err != nil || du < wt.t {
									add("m-wm", "wait-returned-early", fmt.Sprintf("WaitForMark(%d) returned %v while DoneUntil = %d", wt.t, err, du))
								}
								ro.Probes["wait_uncancelled_ok"]++
								left--
							})
							continue
						}
						ctx, cancel := context.WithCancel(context.Background())
						wt := &waiter{t: uint64(tgt), cancel: cancel, ctx: ctx}
						waiters = append(waiters, wt)
						if op.Cancel {
							cancel()
							ro.Probes["wait_with_cancelled_ctx"]++
						}
						err := w.WaitForMark(ctx, wt.t)
						wt.done = true
						du := w.DoneUntil()
						if err == nil && du < wt.t {
							add("m-wm", "wait-returned-early", fmt.Sprintf("WaitForMark(%d) returned nil while DoneUntil = %d", wt.t, du))
						}
						if err != nil && ctx.Err() == nil {
							add("m-wm", "wait-error-without-cancel", fmt.Sprintf("WaitForMark(%d) returned %v although its context is not done", wt.t, err))
						}
						if err != nil {
							ro.Probes["wait_cancelled"]++
						} else {
							ro.Probes["wait_ok"]++
						}
						cancel()
					}
				}
				// finish what this caller still has open, except what the case leaves unfinished
				for len(open) > 0 {
					idx := open[0]
					open = open[1:]
					if c.Leave > 0 && ci == 0 && len(open) < c.Leave {
						ro.Probes["left_unfinished"]++
						continue
					}
					m.doneReq[idx]++
					w.Done(idx)
				}
				left--
			})
		}
		// the harness cancels outstanding waits at drawn moments (cancellation at
		// any time is legal), so that every WaitForMark must return
		pending := func() *waiter {
			for _, wt := range waiters {
				if !wt.done && !wt.cancelled {
					return wt
				}
			}
			return nil
		}
		for {
			s.WaitUntil("join-or-waiting", func() bool { return left == 0 || pending() != nil })
			if left == 0 {
				break
			}
			wt := pending()
			for i := s.Draw(60); i > 0; i-- {
				s.Yield("cancel-delay")
			}
			wt.cancelled = true
			wt.cancel()
		}
		// catch up: everything sent must be processed without further calls
		want := m.expected()
		s.WaitUntil("catch-up", func() bool { return w.DoneUntil() >= want })
		ro.Evaluations = steps
	})
	if s.Deadlock {
		// who is stuck?
		du := w.DoneUntil()
		stuck := false
		for _, wt := range waiters {
			if !wt.done {
				stuck = true
				if du >= wt.t {
					add("m-wm", "waiter-not-released", fmt.Sprintf("a caller is still blocked in WaitForMark(%d) although DoneUntil = %d", wt.t, du))
				} else if wt.ctx.Err() != nil {
					add("m-wm", "waiter-ignores-context", fmt.Sprintf("a caller is still blocked in WaitForMark(%d) although its context is done", wt.t))
				}
			}
		}
		if !stuck {
			add("m-wm", "no-catch-up", fmt.Sprintf("every begun index up to %d is finished and all marks are sent, but DoneUntil stays at %d\n%s", m.expected(), du, s.DeadInfo))
		} else if len(viol) == 0 {
			// a waiter on an index that legitimately never completes: the harness cancels it
			ro.Probes["harness_stuck_waiter"]++
		}
	}
	if s.Abort != "" {
		add("fatal", "panic", s.Abort)
	}
	ro.Mine = viol
	ro.Hash = fmt.Sprintf("%016x", s.Hash)
	ro.Steps, ro.Switches, ro.Pairs = s.Steps, s.Switches, s.SwitchPairs
	ro.SimNS = s.SimEnd.Sub(s.SimStart).Nanoseconds()
	ro.Nontrivial = steps > 10
	ro.Probes["select_multi_ready"] += s.SelMulti
	nm := 0
	for _, l := range c.Callers {
		nm += len(l)
	}
	if nm > 110 {
		ro.Probes["more_marks_than_buffer"]++
	}
	ro.Sample = map[string]any{"case": c, "steps": s.Steps, "oracle": "m-wm at every scheduling step: monotone, never at/after an unfinished index, catch-up at quiescence, WaitForMark contract"}
	if trace {
		ro.TraceText = fmt.Sprint(s.Log)
	}
	return ro
}
