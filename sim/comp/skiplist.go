package comp

import (
	"fmt"
	"sort"
	"testing"
	"time"

	"github.com/B1NARY-GR0UP/originium/pkg/skiplist"
	"github.com/B1NARY-GR0UP/originium/types"

	"verifsim/simrt"
	"verifsim/work"
)

type SLOp struct {
	K    string `json:"k"` // set | del | get | lb | scan | all | size | reset
	Key  string `json:"key,omitempty"`
	Ts   uint64 `json:"ts,omitempty"`
	Key2 string `json:"key2,omitempty"`
	Ts2  uint64 `json:"ts2,omitempty"`
	Val  string `json:"val,omitempty"`
	Tomb bool   `json:"tomb,omitempty"`
}

type SLCase struct {
	Seed     uint64  `json:"seed"`
	MaxLevel int     `json:"max_level"`
	P        float64 `json:"p"`
	ClockNS  int64   `json:"clock_ns"` // simulated time before New: seeds the tower-height PRNG
	Ops      []SLOp  `json:"ops"`
}

var slKeys = []string{"a", "a!", "a ", "a@", "a@1", "a@1@2", "aa", "ab", "b", "\x00", "zz~", "k" + string(make([]byte, 40)) + "1"}

func GenSL(seed uint64) *SLCase {
	r := simrt.NewSplitMix(seed*0x9e3779b97f4a7c15 + 0x17)
	c := &SLCase{Seed: seed, MaxLevel: 1 + r.Intn(12), P: []float64{0.01, 0.25, 0.5, 0.9, 0.99}[r.Intn(5)], ClockNS: int64(1 + r.Intn(1<<30))}
	nk := 2 + r.Intn(len(slKeys)-1)
	keys := append([]string{"a", "a!"}, slKeys[2:nk]...)
	n := 1 + r.Intn(200)
	if r.Intn(3) > 0 {
		n = 1 + r.Intn(40)
	}
	vid := 0
	for i := 0; i < n; i++ {
		k := keys[r.Intn(len(keys))]
		ts := uint64(r.Intn(12))
		x := r.Intn(100)
		switch {
		case x < 45:
			vid++
			c.Ops = append(c.Ops, SLOp{K: "set", Key: k, Ts: ts, Val: fmt.Sprintf("v%d", vid), Tomb: r.Intn(5) == 0})
		case x < 52:
			c.Ops = append(c.Ops, SLOp{K: "del", Key: k, Ts: ts})
		case x < 65:
			c.Ops = append(c.Ops, SLOp{K: "get", Key: k, Ts: ts})
		case x < 80:
			c.Ops = append(c.Ops, SLOp{K: "lb", Key: k, Ts: ts})
		case x < 90:
			c.Ops = append(c.Ops, SLOp{K: "scan", Key: k, Ts: ts, Key2: keys[r.Intn(len(keys))], Ts2: uint64(r.Intn(12))})
		case x < 95:
			c.Ops = append(c.Ops, SLOp{K: "all"})
		case x < 99:
			c.Ops = append(c.Ops, SLOp{K: "size"})
		default:
			c.Ops = append(c.Ops, SLOp{K: "reset"})
		}
	}
	c.Ops = append(c.Ops, SLOp{K: "all"})
	return c
}

func entEq(a, b types.Entry) bool {
	return a.Key == b.Key && string(a.Value) == string(b.Value) && a.Tombstone == b.Tombstone && a.Version == b.Version
}

func entsEq(a, b []types.Entry) bool {
	if len(a) != len(b) {
		return false
	}
	for i := range a {
		if !entEq(a[i], b[i]) {
			return false
		}
	}
	return true
}

// RunSL runs one skiplist case: real skiplist against a slice kept sorted by
// (key ascending, version descending).
func RunSL(t *testing.T, c *SLCase, trace bool) *work.RunOut {
	ro := &work.RunOut{Case: c, Seed: c.Seed, Probes: map[string]int{}, Details: map[string]string{}}
	var viol []work.Violation
	add := func(class, msg string) {
		if len(viol) < 3 {
			viol = append(viol, work.Violation{Oracle: "sorted-map", Class: class, Msg: msg})
		}
	}
	evals := 0
	s := simrt.Run(t, simrt.Options{Seed: c.Seed}, func(s *simrt.Sim) {
		s.Sleep(time.Duration(c.ClockNS))
		sl := skiplist.New(c.MaxLevel, c.P)
		var model []types.Entry
		find := func(k string) int {
			return sort.Search(len(model), func(i int) bool { return types.CompareKeys(model[i].Key, k) >= 0 })
		}
		for oi, op := range c.Ops {
			key := types.KeyWithTs(op.Key, op.Ts)
			evals++
			switch op.K {
			case "set":
				e := types.Entry{Key: key, Value: []byte(op.Val), Tombstone: op.Tomb, Version: int64(op.Ts)}
				sl.Set(e)
				i := find(key)
				if i < len(model) && model[i].Key == key {
					model[i].Value, model[i].Tombstone = e.Value, e.Tombstone
					ro.Probes["overwrite_existing_versioned_key"]++
				} else {
					model = append(model, types.Entry{})
					copy(model[i+1:], model[i:])
					model[i] = e
				}
			case "del":
				got := sl.Delete(key)
				i := find(key)
				want := i < len(model) && model[i].Key == key
				if want {
					model = append(model[:i], model[i+1:]...)
				}
				if got != want {
					add("delete", fmt.Sprintf("op %d Delete(%q) = %v, model %v", oi, key, got, want))
				}
			case "get":
				got, ok := sl.Get(key)
				i := find(key)
				want := i < len(model) && model[i].Key == key
				if ok != want || (ok && !entEq(got, model[i])) {
					add("get", fmt.Sprintf("op %d Get(%q) = %+v,%v; model has=%v", oi, key, got, ok, want))
				}
			case "lb":
				got, ok := sl.LowerBound(key)
				i := find(key)
				want := i < len(model)
				if ok != want || (ok && !entEq(got, model[i])) {
					w := "none"
					if want {
						w = fmt.Sprintf("%+v", model[i])
					}
					add("lower-bound", fmt.Sprintf("op %d LowerBound(%q) = %+v,%v; model %s", oi, key, got, ok, w))
				}
			case "scan":
				end := types.KeyWithTs(op.Key2, op.Ts2)
				got := sl.Scan(key, end)
				var want []types.Entry
				for i := find(key); i < len(model) && types.CompareKeys(model[i].Key, end) < 0; i++ {
					want = append(want, model[i])
				}
				if !entsEq(got, want) {
					add("scan", fmt.Sprintf("op %d Scan(%q,%q) = %d entries %v; model %d entries %v", oi, key, end, len(got), got, len(want), want))
				}
			case "all":
				got := sl.All()
				if !entsEq(got, model) {
					add("all", fmt.Sprintf("op %d All() = %v; model %v", oi, got, model))
				}
			case "size":
				if (sl.Size() == 0) != (len(model) == 0) && len(model) == 0 {
					add("size", fmt.Sprintf("op %d Size() = %d for an empty list", oi, sl.Size()))
				}
			case "reset":
				sl = sl.Reset()
				model = nil
			}
		}
		ro.Probes["entries_at_end"] += len(model)
	})
	if s.Abort != "" {
		viol = append(viol, work.Violation{Oracle: "fatal", Class: "panic", Msg: s.Abort})
	}
	ro.Mine = viol
	ro.Evaluations = evals
	ro.Hash = fmt.Sprintf("%016x", s.Hash^uint64(c.ClockNS)*0x9e3779b97f4a7c15^uint64(len(c.Ops))<<32^uint64(c.MaxLevel)<<48)
	ro.Steps = s.Steps
	ro.SimNS = s.SimEnd.Sub(s.SimStart).Nanoseconds()
	ro.Nontrivial = len(c.Ops) > 3
	ro.Sample = map[string]any{"case": c, "oracle": "every result compared with a slice sorted by (key asc, version desc)"}
	return ro
}
