package comp

import (
	"bytes"
	"errors"
	"fmt"
	"os"
	"runtime/debug"
	"testing"

	"github.com/B1NARY-GR0UP/originium"
	"github.com/B1NARY-GR0UP/originium/table"
	"github.com/B1NARY-GR0UP/originium/types"
	"github.com/B1NARY-GR0UP/originium/wal"

	"verifsim/simrt"
	"verifsim/work"
)

// CodecOp is one encoder call of a task.
type CodecOp struct {
	K       string  `json:"k"` // data | index | footer | meta | table | wal
	Entries []CEnt  `json:"entries,omitempty"`
	Block   int     `json:"block,omitempty"` // table: data block size
	Nums    []int64 `json:"nums,omitempty"`  // footer / meta / index numbers
}

// CEnt describes one entry compactly (bytes are generated from it).
type CEnt struct {
	Key   string `json:"key"`
	KLen  int    `json:"klen,omitempty"` // >0: key padded to this length with a shared prefix
	Ts    uint64 `json:"ts"`
	VLen  int    `json:"vlen"` // value length (0 = empty)
	VSeed int    `json:"vseed"`
	Tomb  bool   `json:"tomb,omitempty"`
}

type CodecCase struct {
	Seed   uint64      `json:"seed"`
	Sim    SimOpts     `json:"sim"`
	Poison bool        `json:"poison"`
	Tasks  [][]CodecOp `json:"tasks"`
}

var codecKeys = []string{"a", "a!", "a ", "a@", "a@1", "a@1@2", "aa", "ab", "b", "\x00", "\x00\x01\xff", "zz~", "key-with-long-shared-prefix-", "key-with-long-shared-prefix-x"}

var sizeClasses = []int{0, 1, 2, 17, 255, 256, 300, 4096}
var bigSizes = []int{65535, 65536, 70000}

func (e CEnt) entry() types.Entry {
	k := e.Key
	if e.KLen > len(k) {
		k = k + string(bytes.Repeat([]byte{'p'}, e.KLen-len(k)))
	}
	v := make([]byte, e.VLen)
	x := uint32(e.VSeed)*2654435761 + 12345
	for i := range v {
		x = x*1664525 + 1013904223
		v[i] = byte(x >> 24)
	}
	return types.Entry{Key: types.KeyWithTs(k, e.Ts), Value: v, Tombstone: e.Tomb, Version: int64(e.Ts)}
}

func genEntries(r *simrt.SplitMix, n int, big bool) []CEnt {
	// distinct (key, ts), sorted by CompareKeys as the engine's callers guarantee
	seen := map[string]bool{}
	var es []CEnt
	for len(es) < n {
		e := CEnt{Key: codecKeys[r.Intn(len(codecKeys))], Ts: uint64(r.Intn(20)), VLen: sizeClasses[r.Intn(len(sizeClasses))], VSeed: r.Intn(1 << 20), Tomb: r.Intn(6) == 0}
		if r.Intn(12) == 0 {
			e.KLen = []int{255, 256, 300, 1000}[r.Intn(4)]
		}
		if big && r.Intn(3) == 0 {
			e.VLen = bigSizes[r.Intn(len(bigSizes))]
		}
		if big && r.Intn(8) == 0 {
			e.KLen = []int{65500, 65536, 70000}[r.Intn(3)]
		}
		id := fmt.Sprint(e.Key, e.KLen, "@", e.Ts)
		if seen[id] {
			continue
		}
		seen[id] = true
		es = append(es, e)
	}
	// insertion sort by versioned key order
	for i := 1; i < len(es); i++ {
		for j := i; j > 0 && types.CompareKeys(es[j].entry().Key, es[j-1].entry().Key) < 0; j-- {
			es[j], es[j-1] = es[j-1], es[j]
		}
	}
	return es
}

func GenCodec(seed uint64, tier string) *CodecCase {
	r := simrt.NewSplitMix(seed*0x9e3779b97f4a7c15 + 0x11)
	c := &CodecCase{Seed: seed, Sim: genSim(&r), Poison: r.Intn(3) > 0}
	nt := 1 + r.Intn(4)
	big := r.Intn(25) == 0
	for t := 0; t < nt; t++ {
		var ops []CodecOp
		n := 1 + r.Intn(6)
		for i := 0; i < n; i++ {
			switch r.Intn(7) {
			case 0, 1:
				ops = append(ops, CodecOp{K: "data", Entries: genEntries(&r, 1+r.Intn(12), big)})
			case 2:
				ops = append(ops, CodecOp{K: "index", Entries: genEntries(&r, 1+r.Intn(6), false), Nums: []int64{int64(r.Intn(1 << 30)), int64(r.Intn(1 << 20))}})
			case 3:
				ops = append(ops, CodecOp{K: "footer", Nums: []int64{int64(r.Next() >> 1), int64(r.Intn(1 << 30)), int64(r.Next() >> 3), int64(r.Intn(70000))}})
			case 4:
				ops = append(ops, CodecOp{K: "meta", Nums: []int64{int64(r.Next()>>1) - (1 << 40), int64(r.Intn(9))}})
			case 5:
				ops = append(ops, CodecOp{K: "table", Entries: genEntries(&r, 1+r.Intn(30), big), Block: []int{1, 16, 64, 300, 4096}[r.Intn(5)]})
			default:
				ops = append(ops, CodecOp{K: "wal", Entries: genEntries(&r, 1+r.Intn(50), big && r.Intn(2) == 0)})
			}
		}
		c.Tasks = append(c.Tasks, ops)
	}
	return c
}

func poisonBuf(x any) {
	if b, ok := x.(*bytes.Buffer); ok {
		s := b.AvailableBuffer()
		s = s[:cap(s)]
		for i := range s {
			s[i] = 0xDB
		}
	}
}

type held struct {
	what string
	live []byte // what the encoder returned
	copy []byte // its content at return
}

// RunCodec runs one codec case: 1-4 tasks encode concurrently under the
// (optionally adversarial) simulated pool; every returned byte slice must keep
// its content at every later scheduling step and decode to the original.
func RunCodec(t *testing.T, c *CodecCase, trace bool) *work.RunOut {
	ro := &work.RunOut{Case: c, Seed: c.Seed, Strategy: c.Sim.Strategy, Probes: map[string]int{}, Details: map[string]string{}}
	dir, err := os.MkdirTemp("/dev/shm", "verif-codec-")
	if err != nil {
		panic(err)
	}
	defer os.RemoveAll(dir)
	var viol []work.Violation
	add := func(oracle, class, msg string) {
		for _, v := range viol {
			if v.Class == class {
				return
			}
		}
		viol = append(viol, work.Violation{Oracle: oracle, Class: class, Msg: msg})
	}
	var holds []*held
	evals := 0
	keep := func(what string, b []byte) {
		holds = append(holds, &held{what: what, live: b, copy: bytes.Clone(b)})
	}
	var lms []*originium.VerifLM
	reg := func(l *originium.VerifLM) { lms = append(lms, l) }
	opt := simrt.Options{Seed: c.Seed, Strategy: c.Sim.Strategy, StickyP: c.Sim.StickyP, PCTDepth: c.Sim.PCTDepth, Dir: dir, PoolSim: true, Trace: trace,
		Teardown: func(*simrt.Sim) {
			for _, l := range lms {
				func() { defer func() { recover() }(); l.Stop() }()
			}
		},
		OnStep: func(s *simrt.Sim) string {
			for _, h := range holds {
				evals++
				if !bytes.Equal(h.live, h.copy) {
					add("stability", "bytes-changed:"+h.what, fmt.Sprintf("the %d bytes returned by the %s encoder changed after it returned (first difference at offset %d)", len(h.copy), h.what, firstDiff(h.live, h.copy)))
					h.copy = bytes.Clone(h.live)
				}
			}
			return ""
		}}
	if c.Poison {
		opt.Poison = poisonBuf
	}
	s := simrt.Run(t, opt, func(s *simrt.Sim) {
		left := len(c.Tasks)
		for ti, ops := range c.Tasks {
			ti, ops := ti, ops
			s.Go(fmt.Sprintf("enc%d", ti), true, func() {
				defer func() {
					if r := recover(); r != nil {
						add("fatal", "encoder-panic", fmt.Sprintf("task %d: panic: %v\n%s", ti, r, debug.Stack()))
					}
					left--
				}()
				for oi, op := range ops {
					s.Yield("op")
					runCodecOp(s, dir, ti, oi, op, keep, add, reg, ro)
				}
			})
		}
		s.WaitUntil("join", func() bool { return left == 0 })
	})
	if s.Abort != "" {
		add("fatal", "panic", s.Abort)
	}
	ro.Mine = viol
	ro.Evaluations = evals + ro.Probes["round_trips"]
	ro.Hash = fmt.Sprintf("%016x", s.Hash)
	ro.Steps, ro.Switches, ro.Pairs = s.Steps, s.Switches, s.SwitchPairs
	if s.FS != nil {
		ro.FSOps = s.FS.Ops
	}
	ro.Probes["pool_gets"] += s.PoolGets
	ro.Probes["pool_reuse_of_freed_buffer"] += s.PoolReuse
	if c.Poison {
		ro.Probes["adversarial_pool_runs"]++
	}
	if len(c.Tasks) > 1 {
		ro.Probes["multi_task_runs"]++
	}
	ro.SimNS = s.SimEnd.Sub(s.SimStart).Nanoseconds()
	ro.Nontrivial = ro.Probes["round_trips"] > 0
	ro.Sample = map[string]any{"case": c, "oracle": "Decode(Encode(x)) == x; returned bytes unchanged at every later scheduling step"}
	return ro
}

func firstDiff(a, b []byte) int {
	for i := 0; i < len(a) && i < len(b); i++ {
		if a[i] != b[i] {
			return i
		}
	}
	return min(len(a), len(b))
}

func entriesEqual(a, b []types.Entry) (bool, string) {
	if len(a) != len(b) {
		return false, fmt.Sprintf("%d entries, want %d", len(a), len(b))
	}
	for i := range a {
		if a[i].Key != b[i].Key || !bytes.Equal(a[i].Value, b[i].Value) || a[i].Tombstone != b[i].Tombstone || a[i].Version != b[i].Version {
			return false, fmt.Sprintf("entry %d: got {key %q (len %d), value len %d, tomb %v, version %d}, want {key len %d, value len %d, tomb %v, version %d}",
				i, trunc(a[i].Key), len(a[i].Key), len(a[i].Value), a[i].Tombstone, a[i].Version, len(b[i].Key), len(b[i].Value), b[i].Tombstone, b[i].Version)
		}
	}
	return true, ""
}

func trunc(s string) string {
	if len(s) > 40 {
		return s[:40] + "..."
	}
	return s
}

func maxKeyLen(es []types.Entry) int {
	m := 0
	for _, e := range es {
		if len(e.Key) > m {
			m = len(e.Key)
		}
	}
	return m
}

func maxFieldLen(es []types.Entry) int {
	m := 0
	for _, e := range es {
		if len(e.Value) > m {
			m = len(e.Value)
		}
		if len(e.Key) > m {
			m = len(e.Key)
		}
	}
	return m
}

func runCodecOp(s *simrt.Sim, dir string, ti, oi int, op CodecOp, keep func(string, []byte), add func(string, string, string), reg func(*originium.VerifLM), ro *work.RunOut) {
	var es []types.Entry
	for _, e := range op.Entries {
		es = append(es, e.entry())
	}
	sizeTag := ""
	if maxFieldLen(es) >= 65536 {
		sizeTag = ":field>=64KiB"
		ro.Probes["fields_64KiB_or_more"]++
	}
	switch op.K {
	case "data":
		d := table.Data{Entries: es}
		b, err := d.Encode()
		if err != nil {
			if maxKeyLen(es) <= 65535 {
				add("round-trip", "data-encode-error", fmt.Sprintf("Data.Encode refused representable entries: %v", err))
			}
			ro.Probes["encode_errors"]++
			return
		}
		if maxKeyLen(es) > 65535 {
			add("round-trip", "data-oversize-key-accepted", "Data.Encode accepted a key longer than its 16-bit length field without an error")
		}
		keep("data", b)
		s.Yield("between")
		var back table.Data
		if err := back.Decode(b); err != nil {
			add("round-trip", "data-decode-error"+sizeTag, fmt.Sprintf("Data.Decode of freshly encoded block: %v", err))
			return
		}
		ro.Probes["round_trips"]++
		if ok, why := entriesEqual(back.Entries, es); !ok {
			add("round-trip", "data"+sizeTag, "Data round trip: "+why)
		}
	case "index":
		ix := table.Index{DataBlock: table.BlockHandle{Offset: uint64(op.Nums[0]), Length: uint64(op.Nums[1])}}
		for i, e := range es {
			ix.Entries = append(ix.Entries, table.IndexEntry{StartKey: e.Key, EndKey: e.Key + "z", DataHandle: table.BlockHandle{Offset: uint64(i * 100), Length: uint64(len(e.Value))}})
		}
		b, err := ix.Encode()
		if err != nil {
			ro.Probes["encode_errors"]++
			return
		}
		keep("index", b)
		s.Yield("between")
		var back table.Index
		if err := back.Decode(b); err != nil {
			add("round-trip", "index-decode-error", fmt.Sprintf("Index.Decode: %v", err))
			return
		}
		ro.Probes["round_trips"]++
		if back.DataBlock != ix.DataBlock || len(back.Entries) != len(ix.Entries) {
			add("round-trip", "index", fmt.Sprintf("Index round trip: got %+v entries %d, want %+v entries %d", back.DataBlock, len(back.Entries), ix.DataBlock, len(ix.Entries)))
			return
		}
		for i := range ix.Entries {
			if back.Entries[i] != ix.Entries[i] {
				add("round-trip", "index", fmt.Sprintf("Index round trip: entry %d differs", i))
				return
			}
		}
	case "footer":
		f := table.Footer{MetaBlock: table.BlockHandle{Offset: uint64(op.Nums[0]), Length: uint64(op.Nums[1])}, IndexBlock: table.BlockHandle{Offset: uint64(op.Nums[2]), Length: uint64(op.Nums[3])}, Magic: 0x5bc2aa5766250562}
		b, err := f.Encode()
		if err != nil {
			return
		}
		keep("footer", b)
		s.Yield("between")
		var back table.Footer
		if err := back.Decode(b); err != nil {
			add("round-trip", "footer-decode-error", fmt.Sprintf("Footer.Decode: %v", err))
			return
		}
		ro.Probes["round_trips"]++
		if back != f {
			add("round-trip", "footer", fmt.Sprintf("Footer round trip: got %+v want %+v", back, f))
		}
	case "meta":
		m := table.Meta{CreatedUnix: op.Nums[0], Level: uint64(op.Nums[1])}
		b, err := m.Encode()
		if err != nil {
			return
		}
		keep("meta", b)
		s.Yield("between")
		var back table.Meta
		if err := back.Decode(b); err != nil {
			add("round-trip", "meta-decode-error", fmt.Sprintf("Meta.Decode: %v", err))
			return
		}
		ro.Probes["round_trips"]++
		if back != m {
			add("round-trip", "meta", fmt.Sprintf("Meta round trip: got %+v want %+v", back, m))
		}
	case "table":
		var ix table.Index
		var b []byte
		refused := false
		func() {
			defer func() {
				// Build has no error result: it panics with the encoder's error
				if r := recover(); r != nil {
					if err, ok := r.(error); ok && errors.Is(err, table.ErrKeyTooLarge) && maxKeyLen(es) > 65535 {
						refused = true
						return
					}
					panic(r)
				}
			}()
			ix, b = table.Build(es, op.Block, 1)
		}()
		if refused {
			ro.Probes["encode_errors"]++
			return
		}
		keep("table", b)
		s.Yield("between")
		// whole table, read back by the engine's own reader: the bytes become a
		// table file, recovery rebuilds the handle from it (footer, index, data),
		// Tables() decodes the whole table and Lookup goes index -> one data block.
		sub := fmt.Sprintf("%s/tb%d_%d", dir, ti, oi)
		_ = os.MkdirAll(sub, 0o755)
		if err := os.WriteFile(sub+"/0-0.db", b, 0o644); err != nil {
			add("fatal", "table-write", err.Error())
			return
		}
		var tabs []originium.VerifTable
		var misses []string
		unreadable := ""
		func() {
			defer func() {
				if r := recover(); r != nil {
					unreadable = fmt.Sprint(r)
				}
			}()
			base := originium.VerifNewLM(sub, originium.Config{L0TargetNum: 4, LevelRatio: 10, DataBlockByteThreshold: op.Block}, 0)
			reg(base)
			lm, _ := base.Recover()
			tabs = lm.Tables()
			step := 1 + len(es)/24
			for i := 0; i < len(es); i += step {
				got, ok := lm.Lookup(es[i].Key)
				if !ok || got.Key != es[i].Key || got.Tombstone != es[i].Tombstone || got.Version != es[i].Version || !bytes.Equal(got.Value, es[i].Value) {
					misses = append(misses, fmt.Sprintf("lookup of stored key #%d (%d-byte key): found=%v", i, len(es[i].Key), ok))
				}
			}
		}()
		if unreadable != "" {
			add("round-trip", "table-unreadable"+sizeTag, "the engine cannot read back the table it built: "+firstLine(unreadable))
			return
		}
		if len(ix.Entries) > 1 {
			ro.Probes["multi_block_tables"]++
		}
		ro.Probes["round_trips"]++
		if len(tabs) != 1 {
			add("round-trip", "table-count", fmt.Sprintf("one table file was written, recovery lists %d tables", len(tabs)))
			return
		}
		if ok, why := entriesEqual(tabs[0].Entries, es); !ok {
			add("round-trip", "table"+sizeTag, "table round trip (Build -> file -> recovery -> whole-table read): "+why)
		}
		if len(misses) > 0 {
			add("round-trip", "table-lookup"+sizeTag, "table round trip (Build -> file -> recovery -> index + block read): "+misses[0])
		}
	case "wal":
		sub := fmt.Sprintf("%s/t%d", dir, ti)
		_ = os.MkdirAll(sub, 0o755)
		w, err := wal.Create(sub)
		if err != nil {
			add("fatal", "wal-create", err.Error())
			return
		}
		// several appends
		for i := 0; i < len(es); {
			n := 1 + (i+ti+oi)%4
			if i+n > len(es) {
				n = len(es) - i
			}
			if err := w.Write(es[i : i+n]...); err != nil {
				add("round-trip", "wal-write-error", err.Error())
				return
			}
			i += n
			s.Yield("between")
		}
		back, err := w.Read()
		if err != nil {
			add("round-trip", "wal-read-error", fmt.Sprintf("WAL.Read: %v", err))
			return
		}
		ro.Probes["round_trips"]++
		if ok, why := entriesEqual(back, es); !ok {
			add("round-trip", "wal"+sizeTag, "wal record sequence round trip: "+why)
		}
		_ = w.Delete()
	}
}

func firstLine(s string) string {
	for i := 0; i < len(s); i++ {
		if s[i] == '\n' {
			return s[:i]
		}
	}
	return s
}
