// Package engine is the whole-engine simulation harness: generated workloads
// are run against the real originium engine (current /repo working tree) on
// the simulation runtime, the calls and their results are recorded as a
// history, and per-property oracles judge the history.
package engine

import (
	"fmt"
	"strings"

	"verifsim/simrt"
)

// Cfg mirrors originium.Config (the fields a run varies).
type Cfg struct {
	SkipListMaxLevel       int     `json:"sl_max"`
	SkipListP              float64 `json:"sl_p"`
	MemtableByteThreshold  int     `json:"mem"`
	ImmutableBuffer        int     `json:"imm"`
	DataBlockByteThreshold int     `json:"blk"`
	L0TargetNum            int     `json:"l0"`
	LevelRatio             int     `json:"ratio"`
}

// Op is one operation inside a transaction.
type Op struct {
	K   string `json:"k"`             // get | set | del | pause | set-ro(misuse) | get-empty | set-empty | del-empty
	Key string `json:"key,omitempty"` //
	Val string `json:"val,omitempty"` // unique id of the written value
	Pad int    `json:"pad,omitempty"` // padding bytes appended to the id ("" value when Pad<0)
}

// TxnProg is one transaction of a client program.
type TxnProg struct {
	ID   int    `json:"id"`
	Mode string `json:"mode"` // update | view (closure API) | rw | ro (manual Begin)
	Ops  []Op   `json:"ops"`
	End  string `json:"end"` // commit | discard | error (closure returns an error) | commit-discard (Commit then Discard) | after (use after finish)
	// Panic (with End "error"): the Update closure does not return the error but panics with it, and the
	// client recovers around db.Update: one more way of abandoning a transaction.
	Panic bool `json:"panic,omitempty"`
}

// Action is one step of a client program.
type Action struct {
	Kind string   `json:"kind"` // txn | restart | drain | closedops
	Txn  *TxnProg `json:"txn,omitempty"`
	Cfg  int      `json:"cfg,omitempty"` // restart: index into Case.Configs
	Gap  int64    `json:"gap,omitempty"` // restart: simulated ns between Close and Open
}

type ClientProg struct {
	Actions []Action `json:"actions"`
}

type SimOpts struct {
	Strategy  string  `json:"strategy"`
	StickyP   float64 `json:"sticky_p,omitempty"`
	PCTDepth  int     `json:"pct_depth,omitempty"`
	OpAtomic  bool    `json:"op_atomic,omitempty"`
	PoolSim   bool    `json:"pool_sim,omitempty"`
	Poison    bool    `json:"poison,omitempty"`
	ClockWide bool    `json:"clock_wide,omitempty"`
}

// Case is a fully explicit, replayable run description.
type Case struct {
	Prop    string       `json:"prop"`
	Profile string       `json:"profile"`
	Seed    uint64       `json:"seed"` // schedule seed
	Sim     SimOpts      `json:"sim"`
	Configs []Cfg        `json:"configs"`
	Keys    []string     `json:"keys"`
	Clients []ClientProg `json:"clients"`
	Crash   *CrashPlan   `json:"crash,omitempty"`
	Final   bool         `json:"final"` // drain + read every key at the end (after all clients finished)
	Reopen  bool         `json:"reopen,omitempty"` // instead: Close with pending flushes, reopen at once, read every key
	BaseTs  uint64       `json:"base_ts,omitempty"` // a table holding one foreign key at this version is planted before the first Open: timestamps continue above it
}

// CrashPlan selects crash images of a recording run to recover.
type CrashPlan struct {
	TailCuts  bool  `json:"tail_cuts"`  // C14: also cut unsynced tails
	Sample    int   `json:"sample"`     // recover at most this many images (0 = all)
	Depth     int   `json:"depth"`      // nested crash depth (1 = only first-level images)
	Nested    int   `json:"nested"`     // per level: how many recoveries are themselves recorded and enumerated
	Only      []int `json:"only,omitempty"`       // replay: only these first-level crash indices
	OnlyCut   []int `json:"only_cuts,omitempty"`  // debugging aid with Only: per depth, the cut variant whose recovery is enumerated further
	PostTxns  int   `json:"post_txns"`  // transactions of the post-recovery workload
}

// ------------------------------------------------------------------ generation

type Rng = simrt.SplitMix

var keyPool = []string{"a", "a!", "a ", "a@", "a@1", "a@1@2", "aa", "ab", "b", "\x00", "zz~",
	"k" + strings.Repeat("p", 280) + "1", "k" + strings.Repeat("p", 280) + "2"}

func pickKeys(r *Rng, n int) []string {
	// "a" and "a!" always present (byte order differs with and without @ts)
	keys := []string{"a", "a!"}
	perm := make([]int, len(keyPool))
	for i := range perm {
		perm[i] = i
	}
	for i := len(perm) - 1; i > 0; i-- {
		j := r.Intn(i + 1)
		perm[i], perm[j] = perm[j], perm[i]
	}
	for _, i := range perm {
		if len(keys) >= n {
			break
		}
		if keyPool[i] == "a" || keyPool[i] == "a!" {
			continue
		}
		keys = append(keys, keyPool[i])
	}
	return keys
}

var (
	memChoices   = []int{1, 40, 120, 300, 1000, 4096}
	immChoices   = []int{0, 1, 2, 10}
	blkChoices   = []int{1, 16, 64, 4096}
	l0Choices    = []int{1, 2, 4}
	ratioChoices = []int{1, 2, 3, 10}
	slChoices    = []int{1, 2, 4, 9}
	slpChoices   = []float64{0.1, 0.5, 0.9}
)

func genCfg(r *Rng, small bool) Cfg {
	c := Cfg{
		SkipListMaxLevel:       slChoices[r.Intn(len(slChoices))],
		SkipListP:              slpChoices[r.Intn(len(slpChoices))],
		MemtableByteThreshold:  memChoices[r.Intn(len(memChoices))],
		ImmutableBuffer:        immChoices[r.Intn(len(immChoices))],
		DataBlockByteThreshold: blkChoices[r.Intn(len(blkChoices))],
		L0TargetNum:            l0Choices[r.Intn(len(l0Choices))],
		LevelRatio:             ratioChoices[r.Intn(len(ratioChoices))],
	}
	if small {
		c.MemtableByteThreshold = memChoices[r.Intn(4)]
	}
	return c
}

// nextCfg draws the configuration of a reopen: level geometry stays fixed.
func nextCfg(r *Rng, first Cfg, small bool) Cfg {
	c := genCfg(r, small)
	c.L0TargetNum, c.LevelRatio = first.L0TargetNum, first.LevelRatio
	return c
}

func genSim(r *Rng) SimOpts {
	o := SimOpts{}
	switch r.Intn(10) {
	case 0, 1, 2:
		o.Strategy = simrt.StratRandom
	case 3, 4, 5:
		o.Strategy = simrt.StratSticky
		o.StickyP = []float64{0.5, 0.9, 0.99}[r.Intn(3)]
	case 6, 7:
		o.Strategy = simrt.StratPCT
		o.PCTDepth = 1 + r.Intn(3)
	case 8:
		o.Strategy = simrt.StratStarve
	default:
		o.Strategy = simrt.StratEager
	}
	o.ClockWide = r.Intn(3) == 0
	o.PoolSim = true
	return o
}

type valGen struct {
	client int
	n      int
}

func (g *valGen) next(r *Rng, txn int) (string, int) {
	g.n++
	id := fmt.Sprintf("v%d.%d.%d", g.client, txn, g.n)
	switch x := r.Intn(20); {
	case x == 0:
		return id, -1 // empty value
	case x < 14:
		return id, r.Intn(30)
	case x < 19:
		return id, 200 + r.Intn(600)
	default:
		return id, 1500 + r.Intn(500)
	}
}

// MakeValue materialises a written value. The id makes it unique; an empty
// value (Pad<0) is the one exception and is attributed by key and order.
func MakeValue(id string, pad int) []byte {
	if pad < 0 {
		return []byte{}
	}
	b := make([]byte, 0, len(id)+1+pad)
	b = append(b, id...)
	b = append(b, '|')
	for i := 0; i < pad; i++ {
		b = append(b, byte('a'+i%23))
	}
	return b
}

// ValueID recovers the id from a value read back ("" for the empty value).
func ValueID(v []byte) string {
	for i, c := range v {
		if c == '|' {
			return string(v[:i])
		}
	}
	return string(v)
}

type SeqParams struct {
	MinTxns, MaxTxns int
	Restarts         bool // clean Close/Open at drawn positions
	Abandon          bool // discarded / failed transactions
	PanicAbandon     bool // C08: half of the failing Update closures panic instead of returning the error
	Misuse           bool // misuse operations
	Small            bool // bias to small thresholds
}

func genTxnOps(r *Rng, keys []string, vg *valGen, txnID int, update bool, nops int) []Op {
	var ops []Op
	for i := 0; i < nops; i++ {
		k := keys[r.Intn(len(keys))]
		x := r.Intn(10)
		switch {
		case !update || x < 3:
			ops = append(ops, Op{K: "get", Key: k})
		case x < 8:
			id, pad := vg.next(r, txnID)
			ops = append(ops, Op{K: "set", Key: k, Val: id, Pad: pad})
		default:
			ops = append(ops, Op{K: "del", Key: k})
		}
	}
	return ops
}

// GenSeq generates a single-client program (profiles of C01, C02, C08).
func GenSeq(seed uint64, prop string, p SeqParams) *Case {
	r := simrt.NewSplitMix(seed*0x9e3779b97f4a7c15 + 0x1234567)
	c := &Case{Prop: prop, Profile: "seq", Seed: seed, Final: true}
	c.Sim = genSim(&r)
	c.Keys = pickKeys(&r, 2+r.Intn(7))
	c.Configs = []Cfg{genCfg(&r, p.Small || r.Intn(3) > 0)}
	if r.Intn(4) == 0 {
		// start above a digit-count boundary or at a very large timestamp
		c.BaseTs = []uint64{8, 9, 98, 99, 997, 9999, 99999997, 1 << 40, 999999999999, 1<<62 - 200}[r.Intn(10)]
	}
	vg := &valGen{client: 0}
	n := p.MinTxns + r.Intn(p.MaxTxns-p.MinTxns+1)
	if r.Intn(4) > 0 && n > 40 {
		n = p.MinTxns + r.Intn(40-p.MinTxns+1) // most runs short
	}
	var acts []Action
	for i := 0; i < n; i++ {
		t := &TxnProg{ID: i, End: "commit"}
		x := r.Intn(10)
		update := x < 7
		switch {
		case update && r.Intn(4) == 0:
			t.Mode = "rw"
		case update:
			t.Mode = "update"
		case r.Intn(3) == 0:
			t.Mode = "ro"
		default:
			t.Mode = "view"
		}
		nops := 1 + r.Intn(4)
		if !update {
			nops = 1 + r.Intn(len(c.Keys))
		}
		t.Ops = genTxnOps(&r, c.Keys, vg, i, update, nops)
		if p.Abandon && update && r.Intn(4) == 0 {
			if t.Mode == "update" {
				t.End = "error"
				t.Panic = p.PanicAbandon && t.ID%2 == 0 // no PRNG draw: the cases of the other properties stay as they were
			} else {
				t.End = "discard"
			}
		}
		if p.Misuse && r.Intn(6) == 0 {
			var m Op
			switch r.Intn(4) {
			case 0:
				m = Op{K: "get-empty"}
			case 1:
				m = Op{K: "set-empty", Val: "bad", Pad: 1}
			case 2:
				m = Op{K: "del-empty"}
			default:
				if !update {
					id, pad := vg.next(&r, i)
					m = Op{K: "set-ro", Key: c.Keys[r.Intn(len(c.Keys))], Val: id, Pad: pad}
				} else {
					m = Op{K: "get-empty"}
				}
			}
			at := r.Intn(len(t.Ops) + 1)
			t.Ops = append(t.Ops[:at], append([]Op{m}, t.Ops[at:]...)...)
		}
		if p.Misuse && (t.Mode == "rw" || t.Mode == "ro") && r.Intn(5) == 0 {
			t.End = "after" // finish, then use the finished transaction
		}
		acts = append(acts, Action{Kind: "txn", Txn: t})
		if r.Intn(12) == 0 {
			acts = append(acts, Action{Kind: "drain"})
		}
		if p.Restarts && r.Intn(7) == 0 {
			reps := 1
			if r.Intn(5) == 0 {
				reps = 2
			}
			for k := 0; k < reps; k++ {
				c.Configs = append(c.Configs, nextCfg(&r, c.Configs[0], p.Small || r.Intn(3) > 0))
				acts = append(acts, Action{Kind: "restart", Cfg: len(c.Configs) - 1, Gap: restartGap(&r)})
				if p.Misuse && r.Intn(4) == 0 {
					acts[len(acts)-1].Kind = "restart-closedops"
				}
			}
		}
	}
	c.Clients = []ClientProg{{Actions: acts}}
	return c
}

func restartGap(r *Rng) int64 {
	switch r.Intn(6) {
	case 0:
		return 1
	case 1:
		return int64(1 + r.Intn(1000))
	case 2:
		return int64(1 + r.Intn(1000000000)) // within about a second
	case 3:
		return 1000000000 + int64(r.Intn(1000000000))
	case 4:
		return int64(3600) * 1000000000
	default:
		return int64(86400*3) * 1000000000
	}
}

func newRng(seed uint64) Rng { return simrt.NewSplitMix(seed) }
