package engine

import "verifsim/simrt"

// CrashImage is the state of the run directory at one crash point together
// with what the oracle knew at that instant.
type CrashImage struct {
	Index int
	Op    int
	Name  string
	Task  string
	Phase string
	Image simrt.Image
}

type crashRecorder struct {
	r      *Runner
	images []*CrashImage
}

func newCrashRecorder(r *Runner) *crashRecorder { return &crashRecorder{r: r} }

func (c *crashRecorder) onFS(ev simrt.FSEvent) {}
