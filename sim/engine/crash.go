package engine

import (
	"encoding/binary"
	"encoding/json"
	"fmt"
	"os"
	"sort"
	"strings"
	"testing"
	"time"

	"github.com/B1NARY-GR0UP/originium"
	"github.com/B1NARY-GR0UP/originium/table"
	"github.com/B1NARY-GR0UP/originium/wal"

	"verifsim/simrt"
)

// AckModel (M-ack) tracks, per key, the set of values a read after a crash at
// this instant may return: the value of the last acknowledged commit touching
// the key, plus the values of commits that were called but have not returned.
type AckModel struct {
	allowed  map[string][]mval        // settled part (one entry unless inherited from an image)
	inflight map[int]map[string]mval  // client -> write set of the commit in flight
	order    map[int][]string         // client -> keys of the in-flight commit (deterministic order)
}

func newAckModel() *AckModel {
	return &AckModel{allowed: map[string][]mval{}, inflight: map[int]map[string]mval{}, order: map[int][]string{}}
}

func (a *AckModel) get(k string) []mval {
	if v, ok := a.allowed[k]; ok {
		return v
	}
	return []mval{{}}
}

func (a *AckModel) begin(client int, ws map[string]mval, order []string) {
	a.inflight[client] = ws
	a.order[client] = order
}

func (a *AckModel) end(client int, committed bool) {
	ws := a.inflight[client]
	delete(a.inflight, client)
	delete(a.order, client)
	if committed {
		for k, v := range ws {
			a.allowed[k] = []mval{v}
		}
	}
}

// freeze records that a read after recovery returned v: from now on that is
// the key's value.
func (a *AckModel) freeze(k string, v mval) { a.allowed[k] = []mval{v} }

// InflightTxn describes a commit in flight at a crash point (for C04).
type InflightTxn struct {
	Client int
	Keys   []string
	New    map[string]mval
	Old    map[string][]mval
}

// AckSnap is the oracle's knowledge at one crash point.
type AckSnap struct {
	Allowed  map[string][]mval
	Inflight []InflightTxn
}

func (a *AckModel) snap(keys []string) *AckSnap {
	s := &AckSnap{Allowed: map[string][]mval{}}
	for _, k := range keys {
		s.Allowed[k] = append([]mval(nil), a.get(k)...)
	}
	var clients []int
	for c := range a.inflight {
		clients = append(clients, c)
	}
	sort.Ints(clients)
	for _, c := range clients {
		it := InflightTxn{Client: c, Keys: a.order[c], New: map[string]mval{}, Old: map[string][]mval{}}
		for _, k := range it.Keys {
			v := a.inflight[c][k]
			it.New[k] = v
			it.Old[k] = append([]mval(nil), a.get(k)...)
			s.Allowed[k] = append(s.Allowed[k], v)
		}
		s.Inflight = append(s.Inflight, it)
	}
	return s
}

func (s *AckSnap) hash() uint64 {
	h := uint64(0xcbf29ce484222325)
	mix := func(x string) {
		for i := 0; i < len(x); i++ {
			h ^= uint64(x[i])
			h *= 0x100000001b3
		}
		h ^= 0xff
		h *= 0x100000001b3
	}
	var keys []string
	for k := range s.Allowed {
		keys = append(keys, k)
	}
	sort.Strings(keys)
	for _, k := range keys {
		mix(k)
		for _, v := range s.Allowed[k] {
			mix(v.String())
		}
	}
	for _, it := range s.Inflight {
		mix(fmt.Sprint(it.Client, it.Keys))
	}
	return h
}

// CrashImage is the state of the run directory at one crash point together
// with what the oracle knew at that instant.
type CrashImage struct {
	Path   []int // crash point indices from the recording run downwards
	Op     int
	Name   string
	Task   string
	Phase  string
	At     time.Duration // simulated time since bubble start
	Image  simrt.Image
	Ack    *AckSnap
	CutTag string
	Vals   map[string]int // every value id written so far in the lineage of runs (id -> padding)
}

type crashRecorder struct {
	r      *Runner
	images []*CrashImage
	seen   map[[2]uint64]bool
	base   []int
}

func newCrashRecorder(r *Runner) *crashRecorder {
	return &crashRecorder{r: r, seen: map[[2]uint64]bool{}}
}

func fileKind(name string) string {
	switch {
	case strings.HasSuffix(name, ".log"):
		return "wal"
	case strings.HasSuffix(name, ".db"):
		if strings.HasPrefix(name, "0-") {
			return "l0"
		}
		return "ln"
	case name == "":
		return "dir"
	}
	return "other"
}

func (c *crashRecorder) onFS(ev simrt.FSEvent) {
	r := c.r
	if r.s == nil {
		return
	}
	phase := r.phase
	if !ev.Task.Client {
		// background goroutine: flusher/compactor
		switch fileKind(ev.Name) {
		case "l0", "wal":
			phase = "flush"
		default:
			phase = "compaction"
		}
	} else if phase == "commit" && ev.Op == os.VerifOpOpen {
		phase = "rotation"
	}
	if os.Getenv("VERIF_DEBUG_FS") != "" {
		fmt.Printf("fs %v+%d %s %s by %s(t%d) phase=%s\n", c.base, ev.Index, simrt.FSOpName(ev.Op), ev.Name, ev.Task.Name, ev.Task.ID, phase)
	}
	snap := r.ack.snap(r.c.Keys)
	img := r.s.FS.Snapshot()
	key := [2]uint64{img.Hash(), snap.hash()}
	r.res.Probes["crash_points"]++
	if c.seen[key] {
		return
	}
	c.seen[key] = true
	path := append(append([]int(nil), c.base...), ev.Index)
	c.images = append(c.images, &CrashImage{Path: path, Op: ev.Op, Name: ev.Name, Task: ev.Task.Name, Phase: phase,
		At: time.Since(r.s.SimStart), Image: img, Ack: snap, Vals: r.vals})
}

// ------------------------------------------------------------------ tail cuts (C14)

// walBoundaries returns the record boundaries of a wal file image.
func walBoundaries(b []byte) []int {
	var res []int
	off := 0
	for off+8 <= len(b) {
		n := int(int64(binary.LittleEndian.Uint64(b[off:])))
		if n < 0 || off+8+n > len(b) {
			break
		}
		off += 8 + n
		res = append(res, off)
	}
	return res
}

// cutVariants lists the lengths to which one file with an unsynced tail is cut.
func cutVariants(name string, st simrt.FileState) []int {
	lo, hi := st.Synced, len(st.Data)
	set := map[int]bool{lo: true, hi: true}
	if hi-lo >= 2 {
		set[lo+1] = true
		set[hi-1] = true
		set[(lo+hi)/2] = true
	}
	if fileKind(name) == "wal" {
		prev := 0
		for _, b := range walBoundaries(st.Data) {
			for _, x := range []int{b, prev + 3, prev + 8 + 1} {
				if x >= lo && x <= hi {
					set[x] = true
				}
			}
			prev = b
		}
		for _, x := range []int{prev + 3, prev + 9} {
			if x >= lo && x <= hi {
				set[x] = true
			}
		}
	}
	var res []int
	for x := range set {
		res = append(res, x)
	}
	sort.Ints(res)
	return res
}

// tailCutImages expands one image into its tail-cut variants (excluding the
// uncut one, which is the plain C03 image).
func tailCutImages(img *CrashImage, rng *simrt.SplitMix, max int) []*CrashImage {
	type fc struct {
		name string
		cuts []int
	}
	var files []fc
	total := 1
	for _, n := range img.Image.Names() {
		st := img.Image[n]
		if len(st.Data) > st.Synced {
			v := cutVariants(n, st)
			files = append(files, fc{n, v})
			total *= len(v)
		}
	}
	if len(files) == 0 {
		return nil
	}
	mk := func(choice []int) *CrashImage {
		im := make(simrt.Image, len(img.Image))
		for k, v := range img.Image {
			im[k] = v
		}
		var tag []string
		cut := false
		for i, f := range files {
			st := im[f.name]
			l := f.cuts[choice[i]]
			if l < len(st.Data) {
				cut = true
				tag = append(tag, fmt.Sprintf("%s:%d/%d(synced %d)", f.name, l, len(st.Data), st.Synced))
				im[f.name] = simrt.FileState{Data: st.Data[:l], Synced: st.Synced}
			}
		}
		if !cut {
			return nil
		}
		c := *img
		c.Image = im
		c.CutTag = strings.Join(tag, ",")
		return &c
	}
	var res []*CrashImage
	if total <= max {
		choice := make([]int, len(files))
		for {
			if c := mk(choice); c != nil {
				res = append(res, c)
			}
			i := 0
			for ; i < len(files); i++ {
				choice[i]++
				if choice[i] < len(files[i].cuts) {
					break
				}
				choice[i] = 0
			}
			if i == len(files) {
				break
			}
		}
		return res
	}
	// sample, always including "everything cut to its synced length"
	res = append(res, mk(make([]int, len(files))))
	for len(res) < max {
		choice := make([]int, len(files))
		for i := range choice {
			choice[i] = rng.Intn(len(files[i].cuts))
		}
		if c := mk(choice); c != nil {
			res = append(res, c)
		}
	}
	return res
}

// ------------------------------------------------------------------ recovery of one image

type RecoveryResult struct {
	Violations []Violation
	Fatal      string
	FatalStk   string
	Sim        *simrt.Sim
	Nested     []*CrashImage
	Reads      int
	WalFiles   int
	Tables     int
}

func imageCounts(im simrt.Image) (wal, tables int) {
	for n := range im {
		switch fileKind(n) {
		case "wal":
			wal++
		case "l0", "ln":
			tables++
		}
	}
	return
}

// RecoverImage opens a fresh engine instance on the image in a bubble of its
// own, checks every key against the image's oracle knowledge (M-ack, C04
// atomicity), runs a post-recovery workload, restarts cleanly and checks
// again. The recovery is itself recorded, so its own crash points come back as
// nested images.
func RecoverImage(t *testing.T, parent *Case, img *CrashImage, seed uint64, nested bool) *RecoveryResult {
	out := &RecoveryResult{}
	dir, err := os.MkdirTemp("/dev/shm", "verif-rec-")
	if err != nil {
		panic(err)
	}
	defer os.RemoveAll(dir)
	if err := img.Image.Materialize(dir); err != nil {
		panic(err)
	}
	out.WalFiles, out.Tables = imageCounts(img.Image)
	rng := simrt.NewSplitMix(seed ^ 0x5eed)
	c := &Case{Prop: parent.Prop, Profile: "recovery", Seed: seed, Keys: parent.Keys, Final: false}
	c.Sim = genSim(&rng)
	c.Sim.Poison = parent.Sim.Poison
	c.Configs = []Cfg{nextCfg(&rng, parent.Configs[0], true), nextCfg(&rng, parent.Configs[0], true)}
	post := 2
	if parent.Crash != nil && parent.Crash.PostTxns > 0 {
		post = parent.Crash.PostTxns
	}
	gap := restartGap(&rng)
	res := &RunResult{Case: c, Probes: Probes{}}
	r := &Runner{c: c, dir: dir, vals: map[string]int{}, res: res, hist: &History{Clients: make([][]Event, 1)}}
	r.ack = newAckModel()
	for id, pad := range img.Vals {
		r.vals[id] = pad
	}
	for k, v := range img.Ack.Allowed {
		r.ack.allowed[k] = append([]mval(nil), v...)
		for _, x := range v {
			if x.present && x.pad >= 0 {
				r.vals[x.id] = x.pad
			}
		}
	}
	if nested {
		r.crash = newCrashRecorder(r)
		r.crash.base = img.Path
	}
	viol := func(oracle, class, key, msg string) {
		out.Violations = append(out.Violations, Violation{Oracle: oracle, Class: class, Key: key, Msg: msg})
	}
	where := fmt.Sprintf("crash point %v (%s %s by %s, phase %s%s)", img.Path, simrt.FSOpName(img.Op), img.Name, img.Task, img.Phase,
		map[bool]string{true: ", cuts " + img.CutTag, false: ""}[img.CutTag != ""])

	// checkSweep reads every key and compares with the allowed sets; the value
	// read becomes the key's value from then on.
	checkSweep := func(stage string) map[string]mval {
		rec := r.sweep(0, 0)
		r.hist.Clients[0] = append(r.hist.Clients[0], Event{Kind: "txn", Txn: rec})
		got := map[string]mval{}
		for _, op := range rec.Ops {
			out.Reads++
			allowed := r.ack.get(op.Key)
			var hit *mval
			for i := range allowed {
				if allowed[i].matches(op.Found, op.Got) {
					hit = &allowed[i]
					break
				}
			}
			if hit == nil {
				g := op.Got
				if !op.Found {
					g = "<not found>"
				}
				var al []string
				for _, a := range allowed {
					al = append(al, a.String())
				}
				cls := "lost-or-wrong"
				if !op.Found {
					cls = "lost"
				} else if strings.HasPrefix(op.Got, "CORRUPT") {
					cls = "corrupt"
				}
				viol("m-ack", cls+":"+img.Phase, op.Key, fmt.Sprintf("%s: after recovery at %s Get(%q) = %s, allowed %v", stage, where, op.Key, g, al))
				continue
			}
			got[op.Key] = *hit
			r.ack.freeze(op.Key, *hit)
		}
		return got
	}

	opt := simrt.Options{Seed: seed, Strategy: c.Sim.Strategy, StickyP: c.Sim.StickyP, PCTDepth: c.Sim.PCTDepth, Dir: dir,
		PoolSim: true, ClockWide: c.Sim.ClockWide,
		Teardown: func(s *simrt.Sim) {
			for _, db := range r.dbs {
				func() {
					defer func() { recover() }()
					db.VerifKill()
				}()
			}
		}}
	if c.Sim.Poison {
		opt.Poison = poisonBuf
	}
	if r.crash != nil {
		opt.OnFS = r.crash.onFS
	}
	if os.Getenv("VERIF_DEBUG") != "" {
		fmt.Printf("--- image %v (dump taken outside the simulation)\n", img.Path)
		for _, n := range img.Image.Names() {
			fmt.Printf("    %s\n", n)
			debugDumpFile(dir, n)
		}
	}
	s := simrt.Run(t, opt, func(s *simrt.Sim) {
		r.s = s
		s.Sleep(img.At + time.Duration(gap))
		r.phase = "recovery"
		if os.Getenv("VERIF_DEBUG") != "" {
			fmt.Printf("--- recovery of %v: crash at +%v, gap %v, now %v\n", img.Path, img.At, time.Duration(gap), time.Now().UTC().Format("20060102150405.000000000"))
			for _, n := range img.Image.Names() {
				fmt.Printf("    %s %d bytes (synced %d)\n", n, len(img.Image[n].Data), img.Image[n].Synced)
			}
		}
		if !r.openDB(0) {
			return
		}
		if os.Getenv("VERIF_DEBUG") != "" {
			ents, _ := os.ReadDir(dir)
			for _, e := range ents {
				fmt.Printf("    after Open: %s\n", e.Name())
			}
		}
		r.phase = ""
		ok := r.guard("client-panic", func() {
			got := checkSweep("first read")
			// C04: the commit in flight at the crash is all-or-nothing
			for _, it := range img.Ack.Inflight {
				var asNew, asOld, distinguishable []string
				for _, k := range it.Keys {
					g, ok := got[k]
					if !ok {
						continue
					}
					isNew := g.same(it.New[k])
					couldBeOld := false
					for _, o := range it.Old[k] {
						if o.same(it.New[k]) {
							couldBeOld = true
						}
					}
					if couldBeOld {
						continue
					}
					distinguishable = append(distinguishable, k)
					if isNew {
						asNew = append(asNew, k)
					} else {
						asOld = append(asOld, k)
					}
				}
				if len(asNew) > 0 && len(asOld) > 0 {
					viol("txn-atomicity", "partial:"+img.Phase, asNew[0], fmt.Sprintf("after recovery at %s the transaction in flight (client %d, keys %q) is visible partially: new for %q, old for %q",
						where, it.Client, it.Keys, asNew, asOld))
				}
				_ = distinguishable
			}
			// post-recovery workload: the store accepts and retains further commits
			vg := &valGen{client: 90 + len(img.Path)}
			for i := 0; i < post; i++ {
				tp := &TxnProg{ID: 100 + i, Mode: "update", End: "commit"}
				tp.Ops = genTxnOps(&rng, c.Keys, vg, 100+i, true, 1+rng.Intn(3))
				pre := map[string][]mval{}
				for _, k := range c.Keys {
					pre[k] = append([]mval(nil), r.ack.get(k)...)
				}
				rec := r.runTxn(0, tp)
				r.hist.Clients[0] = append(r.hist.Clients[0], Event{Kind: "txn", Txn: rec})
				if rec.Err != "" {
					viol("post-recovery", "commit-refused", "", fmt.Sprintf("after recovery at %s a commit returned %q", where, rec.Err))
				}
				// reads inside the transaction must match too
				r.checkTxnReads(rec, pre, viol, where)
			}
			checkSweep("after post-recovery commits")
			if !nested && rng.Intn(3) > 0 {
				// two thirds of the plain recoveries stop here (cost); recorded ones and the rest also restart cleanly
				r.closeDB()
				return
			}
			if !r.closeDB() {
				return
			}
			s.Sleep(time.Duration(restartGap(&rng)))
			r.phase = "recovery"
			if !r.openDB(1) {
				return
			}
			r.phase = ""
			checkSweep("after clean restart")
			r.closeDB()
		})
		_ = ok
	})
	out.Sim = s
	out.Fatal, out.FatalStk = res.Fatal, res.FatalStk
	if s.Abort != "" && out.Fatal == "" {
		out.Fatal = "background-panic: " + s.Abort
		for _, tk := range s.Tasks() {
			if tk.PanicVal != nil {
				out.FatalStk = tk.PanicStack
			}
		}
	}
	if out.Fatal != "" {
		viol("recovery-fatal", fatalClass(out.Fatal)+":"+panicSite(out.FatalStk)+":"+img.Phase, "", fmt.Sprintf("recovery at %s: %s", where, out.Fatal))
	}
	if s.Deadlock || s.Livelock {
		viol("recovery-hang", "hang:"+img.Phase, "", fmt.Sprintf("recovery at %s does not finish:\n%s", where, s.DeadInfo))
	}
	if r.crash != nil {
		out.Nested = r.crash.images
	}
	if os.Getenv("VERIF_DEBUG") != "" && len(out.Violations) > 0 {
		hb, _ := json.MarshalIndent(r.hist, "", " ")
		fmt.Printf("=== recovery of %v cuts=%q files=%v\n%s\n", img.Path, img.CutTag, img.Image.Names(), hb)
		for _, v := range out.Violations {
			fmt.Println("  VIOL", v.Oracle, v.Class, v.Msg)
		}
	}
	return out
}

// checkTxnReads compares the reads of a post-recovery transaction with the
// model (own writes first, then the frozen state) and applies its writes.
func (r *Runner) checkTxnReads(rec *TxnRec, pre map[string][]mval, viol func(oracle, class, key, msg string), where string) {
	overlay := map[string]mval{}
	for _, op := range rec.Ops {
		switch op.K {
		case "get":
			want, own := overlay[op.Key]
			var allowed []mval
			if own {
				allowed = []mval{want}
			} else {
				allowed = pre[op.Key]
			}
			ok := false
			for _, a := range allowed {
				if a.matches(op.Found, op.Got) {
					ok = true
				}
			}
			if !ok {
				viol("m-ack", "post-recovery-read", op.Key, fmt.Sprintf("post-recovery txn after %s: Get(%q) = %q found=%v, allowed %v", where, op.Key, op.Got, op.Found, allowed))
			}
		case "set":
			overlay[op.Key] = mval{id: op.Val, pad: op.Pad, present: true}
		case "del":
			overlay[op.Key] = mval{}
		}
	}
	_ = originium.ErrConflictTxn
}


// debugDumpFile prints the entries of a wal or table file (development aid).
func debugDumpFile(dir, name string) {
	defer func() { recover() }()
	switch fileKind(name) {
	case "wal":
		w, err := wal.Open(dir + "/" + name)
		if err != nil {
			return
		}
		es, err := w.Read()
		for _, e := range es {
			fmt.Printf("        %s tomb=%v val=%.12q\n", e.Key, e.Tombstone, e.Value)
		}
		if err != nil {
			fmt.Println("        read error:", err)
		}
		_ = w.Close()
	case "l0", "ln":
		b, _ := os.ReadFile(dir + "/" + name)
		var f table.Footer
		if len(b) < 40 || f.Decode(b[len(b)-40:]) != nil {
			return
		}
		var ix table.Index
		if ix.Decode(b[f.IndexBlock.Offset:f.IndexBlock.Offset+f.IndexBlock.Length]) != nil {
			return
		}
		var d table.Data
		if d.Decode(b[ix.DataBlock.Offset:ix.DataBlock.Offset+ix.DataBlock.Length]) != nil {
			return
		}
		for _, e := range d.Entries {
			fmt.Printf("        %s tomb=%v val=%.12q\n", e.Key, e.Tombstone, e.Value)
		}
	}
}
