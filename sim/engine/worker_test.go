package engine

import (
	"encoding/json"
	"fmt"
	"strings"
	"testing"

	"verifsim/work"
)

func mixSeed(base uint64, idx int) uint64 { return work.MixSeed(base, idx) }

func TestWorker(t *testing.T) {
	runners := map[string]work.Runner{}
	for name, spec := range Specs {
		spec := spec
		runners[name] = func(t *testing.T, seed uint64, tier string, replay json.RawMessage, trace bool) *work.RunOut {
			curT = t
			var c *Case
			if replay != nil {
				c = &Case{}
				if err := json.Unmarshal(replay, c); err != nil {
					t.Fatal(err)
				}
			} else {
				c = spec.Gen(seed, tier)
			}
			res := RunCase(t, c, trace)
			ev := spec.Check(res)
			ro := &work.RunOut{Case: c, Seed: c.Seed, Hash: fmt.Sprintf("%016x", res.Sim.Hash^ev.AuxHash), Steps: res.Sim.Steps, Switches: res.Sim.Switches,
				SimNS: res.Sim.SimEnd.Sub(res.Sim.SimStart).Nanoseconds(), Evaluations: ev.Evaluations, Inconclusive: ev.Inconclusive,
				Nontrivial: ev.Nontrivial, Strategy: c.Sim.Strategy, Probes: map[string]int{}, Faults: ev.Faults, Foreign: ev.Foreign,
				Pairs: res.Sim.SwitchPairs, Mine: ev.Mine, Details: map[string]string{}}
			if res.Sim.FS != nil {
				ro.FSOps = res.Sim.FS.Ops
			}
			for k, v := range res.Probes {
				ro.Probes[k] += v
			}
			for k, v := range ev.Probes {
				ro.Probes[k] += v
			}
			if res.Sim.Leaked > 0 {
				ro.Probes["leaked_goroutines"] += res.Sim.Leaked
			}
			if res.FatalStk != "" {
				ro.Details["fatal"] = res.FatalStk
			}
			if res.Sim.DeadInfo != "" {
				ro.Details["deadlock"] = res.Sim.DeadInfo
				ro.Details["livelock"] = res.Sim.DeadInfo
			}
			if ev.Nontrivial {
				ro.Sample = sampleOf(res, ev)
			}
			if trace {
				hb, _ := json.MarshalIndent(res.Hist, "", " ")
				ro.TraceText = strings.Join(res.Sim.Log, "\n") + "\n" + string(hb) + "\nfatal: " + res.Fatal + "\n" + res.FatalStk +
					fmt.Sprintf("\ndeadlock: %v\n%s", res.Sim.Deadlock, res.Sim.DeadInfo)
			}
			return ro
		}
	}
	work.Main(t, runners, warmup)
}

func sampleOf(res *RunResult, ev *Eval) any {
	s := map[string]any{
		"case":      res.Case,
		"steps":     res.Sim.Steps,
		"switches":  res.Sim.Switches,
		"fs_ops":    0,
		"tables":    res.NTables,
		"max_level": res.MaxLevel,
		"oracle":    ev.Summary,
	}
	if res.Sim.FS != nil {
		s["fs_ops"] = res.Sim.FS.Ops
	}
	return s
}

// warmup runs one small case so that lazy initialisation of the codec
// libraries happens before the first measured run.
func warmup(t *testing.T) {
	curT = t
	c := GenSeq(1, "warmup", SeqParams{MinTxns: 3, MaxTxns: 3})
	c.Configs[0].MemtableByteThreshold = 1
	RunCase(t, c, false)
}
