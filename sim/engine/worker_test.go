package engine

import (
	"encoding/json"
	"fmt"
	"os"
	"sort"
	"testing"
	"time"
)

// Job is what the driver (/verif/bin/check) hands to one worker process.
type Job struct {
	Prop     string  `json:"prop"`
	Tier     string  `json:"tier"`
	SeedBase uint64  `json:"seed_base"`
	First    int     `json:"first"` // run indices [First, First+Count) step Stride
	Count    int     `json:"count"`
	Stride   int     `json:"stride"`
	BudgetS  float64 `json:"budget_s"` // stop starting new runs after this many seconds
	Out      string  `json:"out"`
	Replay   string  `json:"replay,omitempty"` // path of a replay file: run exactly that case
	Trace    bool    `json:"trace,omitempty"`
}

type Found struct {
	Violation
	RunIndex int    `json:"run_index"`
	Seed     uint64 `json:"seed"`
	Case     *Case  `json:"case"`
	Hash     string `json:"hash"`
	Detail   string `json:"detail,omitempty"`
}

type WorkerOut struct {
	Prop         string         `json:"prop"`
	Runs         int            `json:"runs"`
	Nontrivial   int            `json:"nontrivial"`
	Steps        int64          `json:"steps"`
	Switches     int64          `json:"switches"`
	FSOps        int64          `json:"fs_ops"`
	SimNS        int64          `json:"sim_ns"`
	WallS        float64        `json:"wall_s"`
	Evaluations  int64          `json:"evaluations"` // oracle evaluations (reads checked, images recovered, ...)
	Probes       map[string]int `json:"probes"`
	Faults       map[string]int `json:"faults"`
	Foreign      map[string]int `json:"foreign"`
	Found        []Found        `json:"found"`
	Hashes       []string       `json:"hashes"`        // schedule signature per nontrivial run
	SwitchPairs  []uint64       `json:"switch_pairs"`  // distinct (site,site) context switches
	Sample       any            `json:"sample,omitempty"`
	Inconclusive int            `json:"inconclusive"`
	Strategies   map[string]int `json:"strategies"`
	RunHashes    map[string]string `json:"run_hashes,omitempty"` // determinism mode: run index -> event log hash
}

func mixSeed(base uint64, idx int) uint64 {
	x := base + uint64(idx)*0x9e3779b97f4a7c15
	x ^= x >> 31
	x *= 0xbf58476d1ce4e5b9
	x ^= x >> 29
	if x == 0 {
		x = 1
	}
	return x
}

func TestWorker(t *testing.T) {
	path := os.Getenv("VERIF_JOB")
	if path == "" {
		t.Skip("VERIF_JOB not set")
	}
	b, err := os.ReadFile(path)
	if err != nil {
		t.Fatal(err)
	}
	var job Job
	if err := json.Unmarshal(b, &job); err != nil {
		t.Fatal(err)
	}
	spec, ok := Specs[job.Prop]
	if !ok {
		t.Fatalf("no spec for %s", job.Prop)
	}
	out := &WorkerOut{Prop: job.Prop, Probes: map[string]int{}, Faults: map[string]int{}, Foreign: map[string]int{},
		Strategies: map[string]int{}, RunHashes: map[string]string{}}
	start := time.Now()
	pairs := map[uint64]struct{}{}
	curT = t
	warmup(t)

	runOne := func(idx int, c *Case) {
		res := RunCase(t, c, job.Trace)
		ev := spec.Check(res)
		out.Runs++
		out.Steps += int64(res.Sim.Steps)
		out.Switches += int64(res.Sim.Switches)
		if res.Sim.FS != nil {
			out.FSOps += int64(res.Sim.FS.Ops)
		}
		out.SimNS += res.Sim.SimEnd.Sub(res.Sim.SimStart).Nanoseconds()
		out.Evaluations += int64(ev.Evaluations)
		out.Inconclusive += ev.Inconclusive
		out.Strategies[c.Sim.Strategy]++
		if res.Sim.Leaked > 0 {
			out.Probes["leaked_goroutines"] += res.Sim.Leaked
		}
		for k, v := range res.Probes {
			out.Probes[k] += v
		}
		for k, v := range ev.Probes {
			out.Probes[k] += v
		}
		for k, v := range ev.Faults {
			out.Faults[k] += v
		}
		for k, v := range ev.Foreign {
			out.Foreign[k] += v
		}
		for k := range res.Sim.SwitchPairs {
			pairs[k] = struct{}{}
		}
		h := fmt.Sprintf("%016x", res.Sim.Hash)
		out.RunHashes[fmt.Sprint(idx)] = h
		if ev.Nontrivial {
			out.Nontrivial++
			out.Hashes = append(out.Hashes, h)
		}
		if out.Sample == nil && ev.Nontrivial {
			out.Sample = sampleOf(res, ev)
		}
		for _, v := range ev.Mine {
			v.Prop = job.Prop
			f := Found{Violation: v, RunIndex: idx, Seed: c.Seed, Case: c, Hash: h}
			if res.FatalStk != "" && v.Oracle == "fatal" {
				f.Detail = res.FatalStk
			}
			if res.Sim.DeadInfo != "" && (v.Oracle == "deadlock" || v.Oracle == "livelock") {
				f.Detail = res.Sim.DeadInfo
			}
			if len(out.Found) < 40 {
				out.Found = append(out.Found, f)
			}
		}
		if job.Trace {
			for _, l := range res.Sim.Log {
				fmt.Println(l)
			}
			hb, _ := json.MarshalIndent(res.Hist, "", " ")
			fmt.Println(string(hb))
			fmt.Println("fatal:", res.Fatal, res.FatalStk)
			fmt.Println("deadlock:", res.Sim.Deadlock, res.Sim.DeadInfo)
		}
	}

	if job.Replay != "" {
		rb, err := os.ReadFile(job.Replay)
		if err != nil {
			t.Fatal(err)
		}
		var rf ReplayFile
		if err := json.Unmarshal(rb, &rf); err != nil {
			t.Fatal(err)
		}
		runOne(0, rf.Case)
	} else {
		for i := 0; i < job.Count; i++ {
			if job.BudgetS > 0 && time.Since(start).Seconds() > job.BudgetS {
				break
			}
			idx := job.First + i*job.Stride
			c := spec.Gen(mixSeed(job.SeedBase, idx), job.Tier)
			runOne(idx, c)
		}
	}
	for k := range pairs {
		out.SwitchPairs = append(out.SwitchPairs, k)
	}
	sort.Slice(out.SwitchPairs, func(i, j int) bool { return out.SwitchPairs[i] < out.SwitchPairs[j] })
	out.WallS = time.Since(start).Seconds()
	ob, _ := json.Marshal(out)
	if err := os.WriteFile(job.Out, ob, 0o644); err != nil {
		t.Fatal(err)
	}
}

// ReplayFile is what a VIOLATION line points to.
type ReplayFile struct {
	Property  string    `json:"property"`
	Violation Violation `json:"violation"`
	Case      *Case     `json:"case"`
	Hash      string    `json:"event_log_hash"`
	Detail    string    `json:"detail,omitempty"`
	Original  *Case     `json:"original_case,omitempty"`
	Note      string    `json:"note,omitempty"`
}

func sampleOf(res *RunResult, ev *Eval) any {
	s := map[string]any{
		"case":     res.Case,
		"steps":    res.Sim.Steps,
		"switches": res.Sim.Switches,
		"fs_ops":   0,
		"tables":   res.NTables,
		"max_level": res.MaxLevel,
		"oracle":   ev.Summary,
	}
	if res.Sim.FS != nil {
		s["fs_ops"] = res.Sim.FS.Ops
	}
	return s
}

// warmup runs one transaction outside any simulation so that lazy
// initialisation of the codec libraries happens before the first simulated run.
func warmup(t *testing.T) {
	c := GenSeq(1, "warmup", SeqParams{MinTxns: 3, MaxTxns: 3})
	c.Configs[0].MemtableByteThreshold = 1
	RunCase(t, c, false)
}
