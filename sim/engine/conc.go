package engine

import (
	"fmt"
	"sort"
	"time"

	"github.com/anishathalye/porcupine"

	"verifsim/simrt"
)

// ------------------------------------------------------------------ generation

type ConcParams struct {
	MinClients, MaxClients int
	MaxTxns                int  // per history
	OpAtomic               int  // percent of runs with op-atomic schedules
	SingleOwner            bool // each key written by one client only (C15 final state)
	Abandon                bool // discarded / failed transactions (C08)
	PanicAbandon           bool // C08: half of the failing Update closures panic instead of returning the error
	LongReaders            bool
	Rotate                 bool // small thresholds
	MaxKeys                int
}

// GenConc generates a multi-client program shaped for the classic anomalies:
// read-modify-write on one key, crosswise writes after reading two keys,
// multi-key readers, long-lived readers, write-only and read-only transactions.
func GenConc(seed uint64, prop string, p ConcParams) *Case {
	r := simrt.NewSplitMix(seed*0x9e3779b97f4a7c15 + 0x7654321)
	c := &Case{Prop: prop, Profile: "conc", Seed: seed, Final: true}
	c.Sim = genSim(&r)
	if r.Intn(100) < p.OpAtomic {
		c.Sim.OpAtomic = true
	}
	if p.MaxKeys == 0 {
		p.MaxKeys = 6
	}
	c.Keys = pickKeys(&r, 2+r.Intn(p.MaxKeys-1))
	cfg := genCfg(&r, p.Rotate)
	if p.Rotate && r.Intn(4) > 0 {
		cfg.MemtableByteThreshold = []int{1, 40, 120}[r.Intn(3)]
	}
	c.Configs = []Cfg{cfg}
	nc := p.MinClients + r.Intn(p.MaxClients-p.MinClients+1)
	total := 6 + r.Intn(p.MaxTxns-5)
	id := 0
	for ci := 0; ci < nc; ci++ {
		vg := &valGen{client: ci}
		var own []string
		if p.SingleOwner {
			for i, k := range c.Keys {
				if i%nc == ci {
					own = append(own, k)
				}
			}
		}
		n := total / nc
		if ci < total%nc {
			n++
		}
		var acts []Action
		for i := 0; i < n; i++ {
			t := &TxnProg{ID: id, End: "commit"}
			id++
			wkeys := c.Keys
			if p.SingleOwner {
				wkeys = own
			}
			smallVal := func() (string, int) {
				v, pad := vg.next(&r, t.ID)
				if pad > 40 && r.Intn(3) > 0 {
					pad = r.Intn(20)
				}
				return v, pad
			}
			x := r.Intn(100)
			switch {
			case x < 30 && len(wkeys) > 0: // read-modify-write
				t.Mode = []string{"rw", "update"}[r.Intn(2)]
				k := wkeys[r.Intn(len(wkeys))]
				v, pad := smallVal()
				t.Ops = []Op{{K: "get", Key: k}, {K: "set", Key: k, Val: v, Pad: pad}}
				if r.Intn(3) == 0 {
					t.Ops = append(t.Ops, Op{K: "get", Key: k})
				}
			case x < 45 && len(wkeys) > 0 && len(c.Keys) > 1: // read two, write one (write skew shape)
				t.Mode = "rw"
				k1 := c.Keys[r.Intn(len(c.Keys))]
				k2 := c.Keys[r.Intn(len(c.Keys))]
				wk := wkeys[r.Intn(len(wkeys))]
				v, pad := smallVal()
				t.Ops = []Op{{K: "get", Key: k1}, {K: "get", Key: k2}}
				if r.Intn(3) == 0 {
					t.Ops = append(t.Ops, Op{K: "del", Key: wk})
				} else {
					t.Ops = append(t.Ops, Op{K: "set", Key: wk, Val: v, Pad: pad})
				}
			case x < 60 && len(wkeys) > 0: // write-only, multi-key
				t.Mode = []string{"rw", "update"}[r.Intn(2)]
				nk := 1 + r.Intn(3)
				for j := 0; j < nk; j++ {
					v, pad := smallVal()
					t.Ops = append(t.Ops, Op{K: "set", Key: wkeys[r.Intn(len(wkeys))], Val: v, Pad: pad})
				}
			case x < 70 && len(wkeys) > 0: // general
				t.Mode = []string{"rw", "update"}[r.Intn(2)]
				for _, op := range genTxnOps(&r, c.Keys, vg, t.ID, true, 1+r.Intn(4)) {
					if op.K != "get" && p.SingleOwner {
						op.Key = wkeys[r.Intn(len(wkeys))]
					}
					if op.Pad > 40 {
						op.Pad = r.Intn(30)
					}
					t.Ops = append(t.Ops, op)
				}
			case x < 85 || len(wkeys) == 0: // reader of several keys (fractured reads)
				t.Mode = []string{"ro", "view"}[r.Intn(2)]
				nk := 2 + r.Intn(len(c.Keys))
				for j := 0; j < nk; j++ {
					t.Ops = append(t.Ops, Op{K: "get", Key: c.Keys[r.Intn(len(c.Keys))]})
					if p.LongReaders && r.Intn(3) == 0 {
						t.Ops = append(t.Ops, Op{K: "pause"})
					}
				}
			default: // long-lived reader: re-reads keys while others commit
				t.Mode = "ro"
				if r.Intn(3) == 0 && len(wkeys) > 0 {
					t.Mode = "rw"
				}
				for _, k := range c.Keys {
					t.Ops = append(t.Ops, Op{K: "get", Key: k})
				}
				if p.LongReaders {
					t.Ops = append(t.Ops, Op{K: "wait", Pad: 2 + r.Intn(12)})
					for _, k := range c.Keys {
						t.Ops = append(t.Ops, Op{K: "get", Key: k})
					}
					if r.Intn(2) == 0 {
						t.Ops = append(t.Ops, Op{K: "wait", Pad: 1 + r.Intn(6)})
						t.Ops = append(t.Ops, Op{K: "get", Key: c.Keys[r.Intn(len(c.Keys))]})
					}
				}
				if t.Mode == "rw" {
					v, pad := smallVal()
					t.Ops = append(t.Ops, Op{K: "set", Key: wkeys[r.Intn(len(wkeys))], Val: v, Pad: pad})
				}
			}
			update := t.Mode == "rw" || t.Mode == "update"
			if p.Abandon && update && r.Intn(4) == 0 {
				if t.Mode == "update" {
					t.End = "error"
					t.Panic = p.PanicAbandon && t.ID%2 == 0
				} else {
					t.End = "discard"
				}
			} else if p.Abandon && t.Mode == "rw" && r.Intn(3) == 0 {
				// Commit (which may be refused), then keep using the finished transaction as a naive retry would
				t.End = "after"
			}
			acts = append(acts, Action{Kind: "txn", Txn: t})
		}
		c.Clients = append(c.Clients, ClientProg{Actions: acts})
	}
	return c
}

// ------------------------------------------------------------------ history views

// txnView is a transaction of the history with its external reads (not
// answered by its own earlier writes) and final write set.
type txnView struct {
	t         *TxnRec
	update    bool
	reads     []OpRec // external reads
	writes    map[string]mval
	wkeys     []string
	committed bool // Commit returned nil with a non-empty write set
	refused   bool
}

func viewOf(t *TxnRec) *txnView {
	v := &txnView{t: t, update: t.Mode == "rw" || t.Mode == "update", writes: map[string]mval{}}
	for _, op := range t.Ops {
		switch op.K {
		case "get":
			if _, own := v.writes[op.Key]; own && v.update {
				continue
			}
			v.reads = append(v.reads, op)
		case "set":
			if v.update && op.Err == "" {
				if _, ok := v.writes[op.Key]; !ok {
					v.wkeys = append(v.wkeys, op.Key)
				}
				v.writes[op.Key] = mval{id: op.Val, pad: op.Pad, present: true}
			}
		case "del":
			if v.update && op.Err == "" {
				if _, ok := v.writes[op.Key]; !ok {
					v.wkeys = append(v.wkeys, op.Key)
				}
				v.writes[op.Key] = mval{}
			}
		}
	}
	sort.Strings(v.wkeys)
	finishedOK := t.Finished && t.Err == "" && (t.End == "commit" || t.End == "after")
	v.committed = v.update && finishedOK && len(v.writes) > 0
	v.refused = v.update && t.Finished && t.Err == "conflict"
	return v
}

func allTxns(h *History) []*TxnRec {
	var ts []*TxnRec
	for _, cl := range h.Clients {
		for _, ev := range cl {
			if ev.Kind == "txn" {
				ts = append(ts, ev.Txn)
			}
		}
	}
	for _, ev := range h.Final {
		if ev.Kind == "txn" {
			ts = append(ts, ev.Txn)
		}
	}
	return ts
}

// ------------------------------------------------------------------ porcupine models

const maxKeys = 16

type kvState [maxKeys]string // value per key index: "" = not found, "<empty>", or id

type histOp struct {
	kind   byte // 'R' snapshot read, 'W' commit write, 'T' whole transaction
	reads  []readObs
	writes []writeEff
	txn    int
}

type readObs struct {
	key int
	got string // "" = not found
}

type writeEff struct {
	key int
	val string
}

func obsOf(op OpRec) string {
	if !op.Found {
		return ""
	}
	return op.Got
}

func valOf(v mval) string {
	if !v.present {
		return ""
	}
	if v.pad < 0 {
		return "<empty>"
	}
	return v.id
}

var kvModel = porcupine.Model{
	Init: func() interface{} { return kvState{} },
	Step: func(state, input, output interface{}) (bool, interface{}) {
		st := state.(kvState)
		op := input.(*histOp)
		for _, r := range op.reads {
			if st[r.key] != r.got {
				return false, st
			}
		}
		for _, w := range op.writes {
			st[w.key] = w.val
		}
		return true, st
	},
	Equal: func(a, b interface{}) bool { return a.(kvState) == b.(kvState) },
	DescribeOperation: func(input, output interface{}) string {
		op := input.(*histOp)
		return fmt.Sprintf("%c txn %d reads %v writes %v", op.kind, op.txn, op.reads, op.writes)
	},
}

func keyIndex(keys []string) map[string]int {
	m := map[string]int{}
	for i, k := range keys {
		m[k] = i
	}
	return m
}

const porcupineTimeout = 20 * time.Second

// CheckSnapshot decides C05 on a recorded history (H-snap): every
// transaction's external reads form one snapshot read placed in its Begin
// interval, every successful commit is one write placed in its Commit
// interval; the history must be linearizable against a map.
func CheckSnapshot(c *Case, h *History) (vs []Violation, inconclusive int, nops int) {
	ki := keyIndex(c.Keys)
	var ops []porcupine.Operation
	for _, t := range allTxns(h) {
		if !t.Began {
			continue
		}
		v := viewOf(t)
		// direct checks: own writes, repeatability
		own := map[string]mval{}
		first := map[string]string{}
		for _, op := range t.Ops {
			switch op.K {
			case "get":
				if w, ok := own[op.Key]; ok && v.update {
					if !w.matches(op.Found, op.Got) {
						vs = append(vs, Violation{Oracle: "own-writes", Class: "own-write", Key: op.Key, Seq: op.Call,
							Msg: fmt.Sprintf("txn %d (client %d) Get(%q) after its own write returned %q found=%v, want %s", t.ID, t.Client, op.Key, op.Got, op.Found, w)})
					}
					continue
				}
				o := obsOf(op)
				if f, ok := first[op.Key]; ok && f != o {
					vs = append(vs, Violation{Oracle: "repeatable-read", Class: "snapshot-moved", Key: op.Key, Seq: op.Call,
						Msg: fmt.Sprintf("txn %d (client %d, begun at seq %d) read %q twice from the store: first %q, later %q (seq %d)", t.ID, t.Client, t.BeginRet, op.Key, f, o, op.Call)})
				} else if !ok {
					first[op.Key] = o
				}
			case "set":
				if v.update && op.Err == "" {
					own[op.Key] = mval{id: op.Val, pad: op.Pad, present: true}
				}
			case "del":
				if v.update && op.Err == "" {
					own[op.Key] = mval{}
				}
			}
		}
		if len(first) > 0 {
			ho := &histOp{kind: 'R', txn: t.ID}
			var ks []string
			for k := range first {
				ks = append(ks, k)
			}
			sort.Strings(ks)
			for _, k := range ks {
				ho.reads = append(ho.reads, readObs{ki[k], first[k]})
			}
			ops = append(ops, porcupine.Operation{ClientId: t.Client, Input: ho, Call: int64(t.BeginCall), Return: int64(t.BeginRet)})
		}
		if v.committed {
			ho := &histOp{kind: 'W', txn: t.ID}
			for _, k := range v.wkeys {
				ho.writes = append(ho.writes, writeEff{ki[k], valOf(v.writes[k])})
			}
			ops = append(ops, porcupine.Operation{ClientId: t.Client, Input: ho, Call: int64(t.EndCall), Return: int64(t.EndRet)})
		}
	}
	nops = len(ops)
	if len(vs) > 0 || len(ops) == 0 {
		return
	}
	switch porcupine.CheckOperationsTimeout(kvModel, ops, porcupineTimeout) {
	case porcupine.Illegal:
		vs = append(vs, Violation{Oracle: "h-snap", Class: "not-a-snapshot",
			Msg: "no commit order exists in which every transaction reads the state produced by exactly the commits finished before its Begin (history of snapshot reads and commit writes is not linearizable): " + explainSnapshot(c, h)})
	case porcupine.Unknown:
		inconclusive++
	}
	return
}

// CheckSerializable decides C06 on a recorded history (H-txn).
func CheckSerializable(c *Case, h *History) (vs []Violation, inconclusive int, nops int) {
	ki := keyIndex(c.Keys)
	var ops []porcupine.Operation
	for _, t := range allTxns(h) {
		if !t.Began || !t.Finished {
			continue
		}
		v := viewOf(t)
		if v.update && !v.committed {
			// refused, discarded, failed or empty read-write transactions: reads only matter to C05
			if !(t.Err == "" && len(v.writes) == 0 && (t.End == "commit" || t.End == "after")) {
				continue
			}
		}
		ho := &histOp{kind: 'T', txn: t.ID}
		seen := map[string]bool{}
		for _, op := range v.reads {
			if seen[op.Key] {
				continue
			}
			seen[op.Key] = true
			ho.reads = append(ho.reads, readObs{ki[op.Key], obsOf(op)})
		}
		if v.committed {
			for _, k := range v.wkeys {
				ho.writes = append(ho.writes, writeEff{ki[k], valOf(v.writes[k])})
			}
		}
		if len(ho.reads) == 0 && len(ho.writes) == 0 {
			continue
		}
		ops = append(ops, porcupine.Operation{ClientId: t.Client, Input: ho, Call: int64(t.BeginCall), Return: int64(t.EndRet)})
	}
	nops = len(ops)
	if len(ops) == 0 {
		return
	}
	switch porcupine.CheckOperationsTimeout(kvModel, ops, porcupineTimeout) {
	case porcupine.Illegal:
		vs = append(vs, Violation{Oracle: "h-txn", Class: "not-serializable",
			Msg: "committed and read-only transactions cannot be arranged in a serial order that respects real time and explains every read: " + explainSerial(c, h)})
	case porcupine.Unknown:
		inconclusive++
	}
	return
}

// explainSnapshot gives a human hint for an H-snap failure: the first read
// that no single commit prefix explains when commits are taken in EndRet order.
func explainSnapshot(c *Case, h *History) string {
	type w struct {
		t *txnView
	}
	var ws []*txnView
	for _, t := range allTxns(h) {
		v := viewOf(t)
		if v.committed {
			ws = append(ws, v)
		}
	}
	sort.Slice(ws, func(i, j int) bool { return ws[i].t.EndRet < ws[j].t.EndRet })
	for _, t := range allTxns(h) {
		if !t.Began {
			continue
		}
		v := viewOf(t)
		for _, rd := range v.reads {
			// value must come from some committed writer (or be the initial absence)
			if !rd.Found {
				continue
			}
			ok := false
			for _, x := range ws {
				if wv, has := x.writes[rd.Key]; has && wv.matches(rd.Found, rd.Got) {
					ok = true
					if x.t.EndCall > t.BeginRet && x.t != t {
						return fmt.Sprintf("txn %d (Begin returned at seq %d) read %q = %s written by txn %d whose Commit was called at seq %d, after that Begin returned", t.ID, t.BeginRet, rd.Key, rd.Got, x.t.ID, x.t.EndCall)
					}
				}
			}
			if !ok {
				return fmt.Sprintf("txn %d read %q = %s, a value no committed transaction wrote", t.ID, rd.Key, rd.Got)
			}
		}
	}
	return "see replay"
}

func explainSerial(c *Case, h *History) string {
	// lost update / stale read hint: a committed txn read k, wrote k, while another committed txn wrote k in between
	return explainSnapshot(c, h)
}

// ------------------------------------------------------------------ M-ssi (C07)

// CheckSSI decides C07. In op-atomic schedules client API calls do not
// overlap, so the reference SSI model gives the only legal answer; in
// fine-grained schedules only the cases real time disambiguates are judged.
func CheckSSI(c *Case, h *History) (vs []Violation, judged, ambiguous int) {
	txns := allTxns(h)
	views := map[*TxnRec]*txnView{}
	for _, t := range txns {
		views[t] = viewOf(t)
	}
	if c.Sim.OpAtomic {
		type ev struct {
			seq   int
			begin bool
			t     *TxnRec
		}
		var evs []ev
		for _, t := range txns {
			if !t.Began {
				continue
			}
			evs = append(evs, ev{t.BeginRet, true, t})
			if t.Finished {
				evs = append(evs, ev{t.EndCall, false, t})
			}
		}
		sort.Slice(evs, func(i, j int) bool { return evs[i].seq < evs[j].seq })
		var log []map[string]bool // committed write sets in commit order
		snap := map[*TxnRec]int{}
		for _, e := range evs {
			t := e.t
			v := views[t]
			if e.begin {
				snap[t] = len(log)
				continue
			}
			if !v.update || t.End == "discard" || t.End == "error" {
				if !v.update && t.Err != "" && !(t.End == "error" && t.Err == "closure") {
					vs = append(vs, Violation{Oracle: "m-ssi", Class: "readonly-refused", Seq: t.EndCall,
						Msg: fmt.Sprintf("read-only txn %d finished with %q", t.ID, t.Err)})
				}
				continue
			}
			judged++
			want := ""
			if len(v.writes) > 0 {
			outer:
				for _, ws := range log[snap[t]:] {
					for _, rd := range v.reads {
						if ws[rd.Key] {
							want = "conflict"
							break outer
						}
					}
				}
			}
			if t.Err != want {
				cls := "missed-conflict"
				if want == "" {
					cls = "spurious-" + t.Err
				}
				vs = append(vs, Violation{Oracle: "m-ssi", Class: cls, Seq: t.EndCall,
					Msg: fmt.Sprintf("txn %d (client %d, snapshot after %d commits, store reads %v, writes %v): Commit returned %q, reference SSI model says %q",
						t.ID, t.Client, snap[t], readKeys(v), v.wkeys, t.Err, want)})
			}
			if t.Err == "" && len(v.writes) > 0 {
				ws := map[string]bool{}
				for k := range v.writes {
					ws[k] = true
				}
				log = append(log, ws)
			}
		}
		return
	}
	// fine-grained schedules
	var committed []*txnView
	for _, t := range txns {
		if views[t].committed {
			committed = append(committed, views[t])
		}
	}
	for _, t := range txns {
		v := views[t]
		if !t.Finished || !t.Began {
			continue
		}
		if !v.update {
			if t.Err != "" && !(t.End == "error" && t.Err == "closure") {
				vs = append(vs, Violation{Oracle: "m-ssi", Class: "readonly-refused", Seq: t.EndCall,
					Msg: fmt.Sprintf("read-only txn %d finished with %q", t.ID, t.Err)})
			}
			continue
		}
		if t.End == "discard" || t.End == "error" {
			continue
		}
		if len(v.writes) == 0 || len(v.reads) == 0 {
			judged++
			if t.Err != "" {
				vs = append(vs, Violation{Oracle: "m-ssi", Class: "spurious-" + t.Err, Seq: t.EndCall,
					Msg: fmt.Sprintf("txn %d with no store reads or no writes: Commit returned %q", t.ID, t.Err)})
			}
			continue
		}
		culprit, amb := ssiOverlaps(t, v, committed)
		switch {
		case culprit != nil:
			judged++
			if t.Err != "conflict" {
				vs = append(vs, Violation{Oracle: "m-ssi", Class: "missed-conflict", Seq: t.EndCall,
					Msg: fmt.Sprintf("txn %d (client %d) read %v from the store, txn %d committed writes to %v wholly between its Begin and its Commit, yet Commit returned %q",
						t.ID, t.Client, readKeys(v), culprit.t.ID, culprit.wkeys, t.Err)})
			}
		case len(amb) == 0:
			judged++
			if t.Err != "" {
				vs = append(vs, Violation{Oracle: "m-ssi", Class: "spurious-" + t.Err, Seq: t.EndCall,
					Msg: fmt.Sprintf("txn %d (client %d): no committed transaction that overlaps it wrote a key it read (%v), yet Commit returned %q", t.ID, t.Client, readKeys(v), t.Err)})
			}
		default:
			// commits that overlap this transaction's Begin or Commit in real time: decided by
			// the engine's own timestamps where the run could resolve them (a committed writer
			// this transaction could not see, ordered before it, must have had it refused)
			exact := t.Err == "" && t.CommitTs != 0
			for _, u := range amb {
				if !exact || u.t.CommitTs == 0 {
					exact = false
					break
				}
			}
			if !exact {
				ambiguous++
				break
			}
			judged++
			for _, u := range amb {
				if u.t.CommitTs > t.ReadTs && u.t.CommitTs < t.CommitTs {
					vs = append(vs, Violation{Oracle: "m-ssi", Class: "missed-conflict", Seq: t.EndCall,
						Msg: fmt.Sprintf("txn %d (client %d, read timestamp %d, commit timestamp %d) read %v from the store; txn %d committed writes to %v at timestamp %d, which it could not see, before it - yet its Commit returned nil",
							t.ID, t.Client, t.ReadTs, t.CommitTs, readKeys(v), u.t.ID, u.wkeys, u.t.CommitTs)})
					break
				}
			}
		}
	}
	return
}

// ssiOverlaps classifies the committed writers of keys that t read from the
// store by real time: culprit committed wholly between t's Begin and t's Commit
// (t must be refused); amb are those whose Commit overlaps t's Begin or Commit.
func ssiOverlaps(t *TxnRec, v *txnView, committed []*txnView) (culprit *txnView, amb []*txnView) {
	for _, u := range committed {
		if u.t == t {
			continue
		}
		touches := false
		for _, rd := range v.reads {
			if _, ok := u.writes[rd.Key]; ok {
				touches = true
			}
		}
		if !touches {
			continue
		}
		before := u.t.EndRet < t.BeginCall
		after := u.t.EndCall > t.EndRet
		if before || after {
			continue
		}
		if u.t.EndCall > t.BeginRet && u.t.EndRet < t.EndCall {
			culprit = u
			continue
		}
		amb = append(amb, u)
	}
	if culprit != nil {
		amb = nil
	}
	return
}

// ambiguousPairs lists (t, u) for every committed read-write transaction t and
// committed writer u that the real-time rule leaves undecided.
func ambiguousPairs(c *Case, h *History) [][2]*TxnRec {
	txns := allTxns(h)
	views := map[*TxnRec]*txnView{}
	var committed []*txnView
	for _, t := range txns {
		views[t] = viewOf(t)
		if views[t].committed {
			committed = append(committed, views[t])
		}
	}
	var res [][2]*TxnRec
	for _, t := range txns {
		v := views[t]
		if !t.Finished || !t.Began || !v.committed || len(v.reads) == 0 {
			continue
		}
		_, amb := ssiOverlaps(t, v, committed)
		for _, u := range amb {
			res = append(res, [2]*TxnRec{t, u.t})
		}
	}
	return res
}

func readKeys(v *txnView) []string {
	seen := map[string]bool{}
	var ks []string
	for _, r := range v.reads {
		if !seen[r.Key] {
			seen[r.Key] = true
			ks = append(ks, r.Key)
		}
	}
	sort.Strings(ks)
	return ks
}

// CheckNoTrace decides the concurrent half of C08: no read ever returns a
// value written by a transaction that did not commit.
func CheckNoTrace(c *Case, h *History) (vs []Violation, reads int) {
	committedVals := map[string]bool{}
	abandoned := map[string]int{}
	for _, t := range allTxns(h) {
		v := viewOf(t)
		for _, op := range t.Ops {
			if op.K == "set" && op.Pad >= 0 {
				fin, ok := v.writes[op.Key]
				if v.committed && ok && fin.id == op.Val {
					committedVals[op.Val] = true
				} else if !(t.Finished && t.Err == "" && v.update && (t.End == "commit" || t.End == "after")) || !v.update {
					abandoned[op.Val] = t.ID
				} else {
					abandoned[op.Val] = t.ID // overwritten inside its own transaction: never committed either
				}
			}
		}
	}
	for _, t := range allTxns(h) {
		for _, op := range t.Ops {
			switch op.K {
			case "after-set":
				abandoned[op.Val] = t.ID
				fallthrough
			case "after-del", "after-commit":
				reads++
				if op.Err != "discarded" && !(t.Mode == "ro" && op.Err == "readonly") {
					vs = append(vs, Violation{Oracle: "misuse", Class: "use-after-finish", Seq: op.Call,
						Msg: fmt.Sprintf("txn %d (Commit returned %q): %s on the finished transaction returned %q, want ErrDiscardedTxn", t.ID, t.Err, op.K, op.Err)})
				}
			case "after-get":
				reads++
				if op.Found {
					vs = append(vs, Violation{Oracle: "misuse", Class: "use-after-finish", Seq: op.Call,
						Msg: fmt.Sprintf("txn %d: Get on the finished transaction found %s", t.ID, op.Got)})
				}
			}
		}
	}
	for _, t := range allTxns(h) {
		v := viewOf(t)
		for _, rd := range v.reads {
			reads++
			if !rd.Found {
				continue
			}
			if w, bad := abandoned[rd.Got]; bad && !committedVals[rd.Got] && w != t.ID {
				vs = append(vs, Violation{Oracle: "no-trace", Class: "abandoned-value", Key: rd.Key, Seq: rd.Call,
					Msg: fmt.Sprintf("txn %d read %q = %s, written by txn %d which never committed that value", t.ID, rd.Key, rd.Got, w)})
			}
		}
	}
	return
}
