package engine

import (
	"fmt"
	"os"
)

func concProbes(res *RunResult, ev *Eval) {
	seqProbes(res, ev)
	if res.Sim.FS != nil {
		ev.Probes["fsop_open"] += res.Sim.FS.OpCount[os.VerifOpOpen]
		ev.Probes["fsop_rename(table installed)"] += res.Sim.FS.OpCount[os.VerifOpRename]
		ev.Probes["fsop_remove"] += res.Sim.FS.OpCount[os.VerifOpRemove]
	}
	if res.Case.Sim.OpAtomic {
		ev.Probes["op_atomic_runs"]++
	} else {
		ev.Probes["fine_grained_runs"]++
	}
	conflicts := 0
	for _, t := range allTxns(res.Hist) {
		if t.Err == "conflict" {
			conflicts++
		}
	}
	ev.Probes["conflict_aborts"] += conflicts
}

func init() {
	Specs["C05"] = Spec{
		Gen: func(seed uint64, tier string) *Case {
			return GenConc(seed, "C05", ConcParams{MinClients: 2, MaxClients: 4, MaxTxns: 36, OpAtomic: 25, LongReaders: true, Rotate: true, Abandon: true})
		},
		Check: func(res *RunResult) *Eval {
			ev := newEval()
			commonEval(res, ev, false, false)
			if res.Fatal == "" && !res.Sim.Deadlock && !res.Sim.Livelock {
				vs, inc, nops := CheckSnapshot(res.Case, res.Hist)
				ev.Mine = append(ev.Mine, vs...)
				ev.Inconclusive += inc
				ev.Evaluations = nops
				ev.Nontrivial = nops > 4 && res.NTables > 0
			}
			concProbes(res, ev)
			ev.Summary = fmt.Sprintf("h-snap: %d snapshot-read/commit-write operations checked for linearizability against a map; own-writes and repeatable-read checked directly", ev.Evaluations)
			return ev
		},
	}
	Specs["C06"] = Spec{
		Gen: func(seed uint64, tier string) *Case {
			return GenConc(seed, "C06", ConcParams{MinClients: 2, MaxClients: 4, MaxTxns: 36, OpAtomic: 10, LongReaders: true, Rotate: true})
		},
		Check: func(res *RunResult) *Eval {
			ev := newEval()
			commonEval(res, ev, false, false)
			if res.Fatal == "" && !res.Sim.Deadlock && !res.Sim.Livelock {
				vs, inc, nops := CheckSerializable(res.Case, res.Hist)
				ev.Mine = append(ev.Mine, vs...)
				ev.Inconclusive += inc
				ev.Evaluations = nops
				ev.Nontrivial = nops > 4
			}
			concProbes(res, ev)
			ev.Summary = fmt.Sprintf("h-txn: %d whole-transaction operations checked for strict serializability (porcupine)", ev.Evaluations)
			return ev
		},
	}
	Specs["C07"] = Spec{
		Gen: func(seed uint64, tier string) *Case {
			return GenConc(seed, "C07", ConcParams{MinClients: 2, MaxClients: 4, MaxTxns: 100, OpAtomic: 50, LongReaders: true, Rotate: false, Abandon: true, MaxKeys: 5})
		},
		Check: func(res *RunResult) *Eval {
			ev := newEval()
			commonEval(res, ev, false, false)
			if res.Fatal == "" && !res.Sim.Deadlock && !res.Sim.Livelock {
				vs, judged, amb := CheckSSI(res.Case, res.Hist)
				ev.Mine = append(ev.Mine, vs...)
				ev.Evaluations = judged
				ev.Probes["ssi_ambiguous_accepted"] += amb
				ev.Nontrivial = judged > 2
				// a refused transaction applies nothing
				nt, _ := CheckNoTrace(res.Case, res.Hist)
				for _, v := range nt {
					v.Oracle, v.Class = "refused-applied", "refused-applied"
					ev.Mine = append(ev.Mine, v)
				}
			}
			concProbes(res, ev)
			ev.Summary = fmt.Sprintf("m-ssi: %d commit verdicts compared with the reference SSI model (op-atomic=%v), %d ambiguous accepted", ev.Evaluations, res.Case.Sim.OpAtomic, ev.Probes["ssi_ambiguous_accepted"])
			return ev
		},
	}
	Specs["C08"] = Spec{
		Gen: func(seed uint64, tier string) *Case {
			if seed%3 == 0 {
				return GenConc(seed, "C08", ConcParams{MinClients: 2, MaxClients: 3, MaxTxns: 40, OpAtomic: 30, Rotate: true, Abandon: true, PanicAbandon: true})
			}
			return GenSeq(seed, "C08", SeqParams{MinTxns: 10, MaxTxns: 100, Small: true, Restarts: true, Abandon: true, PanicAbandon: true, Misuse: true})
		},
		Check: func(res *RunResult) *Eval {
			ev := newEval()
			commonEval(res, ev, false, false)
			if res.Case.Profile == "conc" {
				if res.Fatal == "" {
					vs, reads := CheckNoTrace(res.Case, res.Hist)
					ev.Mine = append(ev.Mine, vs...)
					ev.Evaluations = reads
					ev.Nontrivial = reads > 0
				}
				concProbes(res, ev)
				ev.Probes["conc_runs"]++
				return ev
			}
			vs, m := CheckSeq(res.Case, res.Hist)
			ev.Evaluations = m.Reads
			abandoned, misuse := 0, 0
			for _, t := range allTxns(res.Hist) {
				if t.End == "error" || t.End == "discard" {
					abandoned++
				}
				for _, op := range t.Ops {
					switch op.K {
					case "set-ro", "get-empty", "set-empty", "del-empty", "after-set", "after-del", "after-get", "after-commit":
						misuse++
					}
				}
			}
			for _, cl := range res.Hist.Clients {
				for _, e := range cl {
					misuse += len(e.Errs)
				}
			}
			ev.Probes["abandoned_txns"] += abandoned
			ev.Probes["misuse_calls"] += misuse
			for _, v := range vs {
				switch {
				case v.Oracle == "m-seq" && (v.Class == "abandoned-value" || v.Class == "unknown-value"):
					ev.Mine = append(ev.Mine, v)
				case v.Oracle == "misuse", v.Oracle == "api-error":
					ev.Mine = append(ev.Mine, v)
				default:
					ev.Foreign[v.Oracle+":"+v.Class]++
				}
			}
			seqProbes(res, ev)
			ev.Nontrivial = abandoned+misuse > 0 && m.Reads > 0
			ev.Summary = fmt.Sprintf("m-seq ignoring %d abandoned transactions, %d misuse calls checked for the documented error, %d reads", abandoned, misuse, m.Reads)
			return ev
		},
	}
	Specs["C15"] = Spec{
		Gen: func(seed uint64, tier string) *Case {
			c := GenConc(seed, "C15", ConcParams{MinClients: 2, MaxClients: 4, MaxTxns: 40, OpAtomic: 0, LongReaders: true, Rotate: true, SingleOwner: true})
			c.Reopen = true
			r := Rng{}
			r = newRng(seed ^ 0xc15)
			c.Configs[0].ImmutableBuffer = []int{0, 0, 1, 2, 10}[r.Intn(5)]
			c.Configs[0].MemtableByteThreshold = []int{1, 40, 120, 300}[r.Intn(4)]
			if r.Intn(2) == 0 {
				c.Sim.Strategy = "starve-bg"
			}
			return c
		},
		Check: func(res *RunResult) *Eval {
			ev := newEval()
			commonEval(res, ev, false, true)
			if res.FlusherAlive {
				ev.Mine = append(ev.Mine, Violation{Oracle: "close", Class: "flusher-alive-after-close", Msg: "the background flusher task had not exited when Close returned"})
			}
			if res.Fatal == "" && !res.Sim.Deadlock && !res.Sim.Livelock {
				// complete committed state after reopen: per key the owner's last committed write
				want := map[string]mval{}
				for _, cl := range res.Hist.Clients {
					for _, e := range cl {
						if e.Kind != "txn" {
							continue
						}
						v := viewOf(e.Txn)
						if v.committed {
							for k, x := range v.writes {
								want[k] = x
							}
						}
					}
				}
				for _, e := range res.Hist.Final {
					for _, op := range e.Txn.Ops {
						ev.Evaluations++
						if w := want[op.Key]; !w.matches(op.Found, op.Got) {
							ev.Mine = append(ev.Mine, Violation{Oracle: "reopen-state", Class: "state-after-close-reopen", Key: op.Key,
								Msg: fmt.Sprintf("after Close and immediate reopen Get(%q) = %q found=%v, want %s", op.Key, op.Got, op.Found, w)})
						}
					}
				}
				ev.Nontrivial = len(res.Hist.Final) > 0
			}
			concProbes(res, ev)
			if res.Case.Configs[0].ImmutableBuffer == 0 {
				ev.Probes["unbuffered_flush_queue_runs"]++
			}
			ev.Probes["close_with_pending_flush"] += 0
			ev.Summary = "exact deadlock detection + bounded-step rule for every call; flusher exited at Close; reopened state complete"
			return ev
		},
	}
}

func init() {
	Specs["C12"] = Spec{
		Gen: func(seed uint64, tier string) *Case {
			c := GenConc(seed, "C12", ConcParams{MinClients: 2, MaxClients: 4, MaxTxns: 30, OpAtomic: 0, LongReaders: true, Rotate: true, Abandon: true})
			r := newRng(seed ^ 0xc12)
			c.Configs[0].MemtableByteThreshold = []int{1, 40, 120, 120}[r.Intn(4)]
			c.Configs[0].ImmutableBuffer = []int{0, 1, 2, 10}[r.Intn(4)]
			return c
		},
		Check: func(res *RunResult) *Eval {
			ev := newEval()
			commonEval(res, ev, true, false)
			seen := map[string]bool{}
			for _, rr := range res.Races {
				if seen[rr.Class] {
					continue
				}
				seen[rr.Class] = true
				ev.Mine = append(ev.Mine, Violation{Oracle: "race", Class: rr.Class, Msg: "data race: " + rr.A + "  vs  " + rr.B + "\n" + rr.Text})
			}
			if res.Fatal == "" && !res.Sim.Deadlock && !res.Sim.Livelock {
				vs, inc, n1 := CheckSnapshot(res.Case, res.Hist)
				ev.Mine = append(ev.Mine, vs...)
				ev.Inconclusive += inc
				vs, inc, n2 := CheckSerializable(res.Case, res.Hist)
				ev.Mine = append(ev.Mine, vs...)
				ev.Inconclusive += inc
				vs, judged, amb := CheckSSI(res.Case, res.Hist)
				ev.Mine = append(ev.Mine, vs...)
				ev.Probes["ssi_ambiguous_accepted"] += amb
				ev.Evaluations = n1 + n2 + judged
				ev.Nontrivial = n1 > 4 && res.NTables > 0
			}
			concProbes(res, ev)
			ev.Probes["race_reports_engine"] += len(res.Races)
			ev.Summary = "race detector on the serialised schedule (hand-off invisible to the detector), panics of any engine goroutine, and the C05/C06/C07 oracles on the same history"
			return ev
		},
	}
}
