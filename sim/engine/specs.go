package engine

import (
	"fmt"
	"strings"
)

// Eval is what a property's oracle set makes of one run.
type Eval struct {
	Mine         []Violation    // violations of the property being checked
	Foreign      map[string]int // events that belong to other properties (counted, not judged)
	Probes       map[string]int
	Faults       map[string]int
	Evaluations  int
	Inconclusive int
	Nontrivial   bool
	Summary      string
	AuxHash      uint64 // event-log hashes of secondary runs (recoveries), folded into the run's hash
}

func newEval() *Eval {
	return &Eval{Foreign: map[string]int{}, Probes: map[string]int{}, Faults: map[string]int{}}
}

type Spec struct {
	Gen   func(seed uint64, tier string) *Case
	Check func(res *RunResult) *Eval
}

var Specs = map[string]Spec{}

func fatalClass(f string) string {
	if i := strings.Index(f, ":"); i > 0 {
		return f[:i]
	}
	return f
}

// readClasses are the classes of m-seq read mismatches.
var readClasses = map[string]bool{"lost": true, "stale": true, "resurrected": true, "wrong-key": true,
	"corrupt": true, "unknown-value": true, "abandoned-value": true, "own-write": true, "mismatch": true}

// commonEval handles what every whole-engine check shares: fatal events,
// deadlock, livelock. The caller says which of them belong to its property.
func commonEval(res *RunResult, ev *Eval, ownFatal, ownHang bool) {
	if res.Fatal != "" {
		if ownFatal {
			ev.Mine = append(ev.Mine, Violation{Oracle: "fatal", Class: fatalClass(res.Fatal) + ":" + panicSite(res.FatalStk), Msg: res.Fatal})
		} else {
			ev.Foreign["fatal:"+fatalClass(res.Fatal)]++
		}
	}
	if res.Sim.Deadlock {
		if ownHang {
			ev.Mine = append(ev.Mine, Violation{Oracle: "deadlock", Class: "deadlock", Msg: "no runnable task while a client call is outstanding"})
		} else {
			ev.Foreign["deadlock"]++
		}
	}
	if res.Sim.Livelock {
		if ownHang {
			ev.Mine = append(ev.Mine, Violation{Oracle: "livelock", Class: "livelock", Msg: "step budget and fair tail exhausted"})
		} else {
			ev.Foreign["livelock"]++
		}
	}
}

// panicSite extracts the first engine frame (function name) of a panic stack.
func panicSite(stk string) string {
	lines := strings.Split(stk, "\n")
	for _, l := range lines {
		if strings.HasPrefix(l, "github.com/B1NARY-GR0UP/originium") && !strings.Contains(l, "logger.") {
			l = strings.TrimPrefix(l, "github.com/B1NARY-GR0UP/originium")
			if i := strings.LastIndex(l, "("); i > 0 {
				l = l[:i]
			}
			return strings.TrimLeft(l, "/.")
		}
	}
	return "?"
}

func seqProbes(res *RunResult, ev *Eval) {
	if res.Sim.FS != nil {
		ev.Probes["fs_ops"] += res.Sim.FS.Ops
	}
	if res.NTables > 0 {
		ev.Probes["runs_with_tables"]++
	}
	if res.MaxLevel >= 1 {
		ev.Probes["runs_reaching_L1"]++
	}
	if res.MaxLevel >= 2 {
		ev.Probes["runs_reaching_L2"]++
	}
	ev.Probes["select_multi_ready"] += res.Sim.SelMulti
}

func init() {
	Specs["C01"] = Spec{
		Gen: func(seed uint64, tier string) *Case {
			return GenSeq(seed, "C01", SeqParams{MinTxns: 10, MaxTxns: 150, Small: true})
		},
		Check: func(res *RunResult) *Eval {
			ev := newEval()
			commonEval(res, ev, false, false)
			vs, m := CheckSeq(res.Case, res.Hist)
			ev.Evaluations = m.Reads
			for _, v := range vs {
				if v.Oracle == "m-seq" && readClasses[v.Class] {
					ev.Mine = append(ev.Mine, v)
				} else {
					ev.Foreign[v.Oracle+":"+v.Class]++
				}
			}
			seqProbes(res, ev)
			ev.Nontrivial = res.NTables > 0 && m.Reads > 0
			ev.Summary = fmt.Sprintf("m-seq: %d txns, %d reads checked, %d mismatches; tables=%d maxlevel=%d", m.Txns, m.Reads, len(ev.Mine), res.NTables, res.MaxLevel)
			return ev
		},
	}
}

func init() {
	Specs["C02"] = Spec{
		Gen: func(seed uint64, tier string) *Case {
			return GenSeq(seed, "C02", SeqParams{MinTxns: 10, MaxTxns: 120, Small: true, Restarts: true})
		},
		Check: func(res *RunResult) *Eval {
			ev := newEval()
			commonEval(res, ev, false, false)
			// Open must not fail on a cleanly closed directory
			if res.Fatal != "" && (fatalClass(res.Fatal) == "open-panic" || fatalClass(res.Fatal) == "open-error") {
				ev.Mine = append(ev.Mine, Violation{Oracle: "reopen", Class: fatalClass(res.Fatal) + ":" + panicSite(res.FatalStk), Msg: "Open after a clean Close: " + res.Fatal})
			}
			// ... and a call on the reopened store must return: a Get, Set or Commit that panics in an instance opened
			// on a cleanly closed directory (the clients of this check are sequential, the first instance is excluded)
			// did not give back the committed state
			if res.Fatal != "" && fatalClass(res.Fatal) == "client-panic" && res.FatalInst > 1 {
				ev.Mine = append(ev.Mine, Violation{Oracle: "reopen", Class: "client-panic-after-reopen:" + panicSite(res.FatalStk), Msg: fmt.Sprintf("call on the store reopened after a clean Close (instance %d) panicked: %s", res.FatalInst, res.Fatal)})
			}
			vs, m := CheckSeq(res.Case, res.Hist)
			ev.Evaluations = m.Reads
			for _, v := range vs {
				if v.Oracle == "m-seq" && readClasses[v.Class] {
					ev.Mine = append(ev.Mine, v)
				} else {
					ev.Foreign[v.Oracle+":"+v.Class]++
				}
			}
			seqProbes(res, ev)
			ev.Nontrivial = res.NTables > 0 && m.Reads > 0 && res.Probes["restart"] > 0
			ev.Summary = fmt.Sprintf("m-seq across %d clean restarts: %d txns, %d reads checked, %d mismatches", res.Probes["restart"], m.Txns, m.Reads, len(ev.Mine))
			return ev
		},
	}
	// DEV: development aid that owns every verdict of the sequential profile.
	Specs["DEV"] = Spec{
		Gen: func(seed uint64, tier string) *Case {
			return GenSeq(seed, "DEV", SeqParams{MinTxns: 10, MaxTxns: 150, Small: true, Restarts: tier == "restarts"})
		},
		Check: func(res *RunResult) *Eval {
			ev := newEval()
			commonEval(res, ev, true, true)
			vs, m := CheckSeq(res.Case, res.Hist)
			ev.Evaluations = m.Reads
			ev.Mine = append(ev.Mine, vs...)
			seqProbes(res, ev)
			ev.Nontrivial = res.NTables > 0
			return ev
		},
	}
}
