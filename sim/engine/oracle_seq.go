package engine

import (
	"fmt"
	"sort"

	"verifsim/work"
)

// Violation is one oracle verdict against a run.
type Violation = work.Violation

type mval struct {
	id      string
	pad     int
	present bool
}

func (v mval) String() string {
	if !v.present {
		return "<not found>"
	}
	if v.pad < 0 {
		return "<empty>"
	}
	return v.id
}

// same reports whether two model values are indistinguishable to a reader
// (empty values carry no id).
func (v mval) same(o mval) bool {
	if v.present != o.present {
		return false
	}
	if !v.present {
		return true
	}
	if v.pad < 0 || o.pad < 0 {
		return v.pad < 0 && o.pad < 0
	}
	return v.id == o.id
}

func (v mval) matches(found bool, got string) bool {
	if !v.present {
		return !found
	}
	if !found {
		return false
	}
	if v.pad < 0 {
		return got == "<empty>"
	}
	return got == v.id
}

// writer info for classification of wrong reads
type winfo struct {
	key       string
	committed bool
}

// SeqModel is the sequential map model (M-seq).
type SeqModel struct {
	state   map[string]mval
	writers map[string]winfo // value id -> who wrote it
	everSet map[string]bool  // keys that ever had a committed value
	Reads   int
	Txns    int
}

func NewSeqModel() *SeqModel {
	return &SeqModel{state: map[string]mval{}, writers: map[string]winfo{}, everSet: map[string]bool{}}
}

func (m *SeqModel) classify(key string, want mval, found bool, got string) string {
	switch {
	case len(got) >= 7 && got[:7] == "CORRUPT":
		return "corrupt"
	case !found && want.present:
		return "lost"
	case found && got == "<empty>":
		if want.present {
			return "stale"
		}
		return "resurrected"
	case found:
		w, ok := m.writers[got]
		switch {
		case !ok:
			return "unknown-value"
		case w.key != key:
			return "wrong-key"
		case !w.committed:
			return "abandoned-value"
		case !want.present:
			return "resurrected"
		default:
			return "stale"
		}
	}
	return "mismatch"
}

// CheckSeq replays a single-client history against the map model. Every
// mismatch is returned with a class; the caller decides which classes belong
// to the property it is checking.
func CheckSeq(c *Case, h *History) (vs []Violation, m *SeqModel) {
	m = NewSeqModel()
	var events []Event
	for _, cl := range h.Clients {
		events = append(events, cl...)
	}
	events = append(events, h.Final...)
	afterRestart := false
	for _, ev := range events {
		switch ev.Kind {
		case "restart":
			afterRestart = true
			if len(ev.Errs) > 0 {
				for i, e := range ev.Errs {
					if e != "closed" {
						vs = append(vs, Violation{Oracle: "misuse", Class: "closed-db-call", Seq: ev.Seq,
							Msg: fmt.Sprintf("call %d through View/Update after Close returned %q, want ErrDBClosed", i, e)})
					}
				}
			}
			continue
		case "txn":
		default:
			continue
		}
		t := ev.Txn
		m.Txns++
		update := t.Mode == "update" || t.Mode == "rw"
		overlay := map[string]mval{}
		var order []string
		for _, op := range t.Ops {
			switch op.K {
			case "get":
				want, own := overlay[op.Key]
				if !own || !update {
					want = m.state[op.Key]
				}
				m.Reads++
				if !want.matches(op.Found, op.Got) {
					cls := m.classify(op.Key, want, op.Found, op.Got)
					where := "store"
					if own && update {
						where = "own-write"
						cls = "own-write"
					}
					if afterRestart {
						where += ",after-restart"
					}
					got := op.Got
					if !op.Found {
						got = "<not found>"
					}
					vs = append(vs, Violation{Oracle: "m-seq", Class: cls, Key: op.Key, Seq: op.Call,
						Msg: fmt.Sprintf("txn %d (inst %d) Get(%q) = %s, want %s [%s]", t.ID, t.Inst, op.Key, got, want, where)})
				}
			case "set":
				m.writers[op.Val] = winfo{key: op.Key}
				if !update {
					continue
				}
				if op.Err != "" {
					vs = append(vs, Violation{Oracle: "api-error", Class: "set-error", Key: op.Key, Seq: op.Call,
						Msg: fmt.Sprintf("txn %d Set(%q) returned %q", t.ID, op.Key, op.Err)})
					continue
				}
				if _, ok := overlay[op.Key]; !ok {
					order = append(order, op.Key)
				}
				overlay[op.Key] = mval{id: op.Val, pad: op.Pad, present: true}
			case "del":
				if !update {
					continue
				}
				if op.Err != "" {
					vs = append(vs, Violation{Oracle: "api-error", Class: "del-error", Key: op.Key, Seq: op.Call,
						Msg: fmt.Sprintf("txn %d Delete(%q) returned %q", t.ID, op.Key, op.Err)})
					continue
				}
				if _, ok := overlay[op.Key]; !ok {
					order = append(order, op.Key)
				}
				overlay[op.Key] = mval{}
			case "set-ro":
				m.writers[op.Val] = winfo{key: op.Key}
				if op.Err != "readonly" {
					vs = append(vs, Violation{Oracle: "misuse", Class: "readonly-write", Key: op.Key, Seq: op.Call,
						Msg: fmt.Sprintf("txn %d Set in read-only transaction returned %q, want ErrReadOnlyTxn", t.ID, op.Err)})
				}
			case "get-empty":
				if op.Found {
					vs = append(vs, Violation{Oracle: "misuse", Class: "empty-key", Seq: op.Call,
						Msg: fmt.Sprintf("txn %d Get(\"\") found a value %s", t.ID, op.Got)})
				}
			case "set-empty", "del-empty":
				if op.K == "set-empty" {
					m.writers[op.Val] = winfo{key: ""}
				}
				ok := op.Err == "emptykey" || (!update && op.Err == "readonly")
				if !ok {
					vs = append(vs, Violation{Oracle: "misuse", Class: "empty-key", Seq: op.Call,
						Msg: fmt.Sprintf("txn %d %s returned %q, want ErrEmptyKey", t.ID, op.K, op.Err)})
				}
			case "after-set", "after-del":
				if op.K == "after-set" {
					m.writers[op.Val] = winfo{key: op.Key}
				}
				ok := op.Err == "discarded" || (!update && op.Err == "readonly")
				if !ok {
					vs = append(vs, Violation{Oracle: "misuse", Class: "use-after-finish", Seq: op.Call,
						Msg: fmt.Sprintf("txn %d %s on a finished transaction returned %q, want ErrDiscardedTxn", t.ID, op.K, op.Err)})
				}
			case "after-get":
				if op.Found {
					vs = append(vs, Violation{Oracle: "misuse", Class: "use-after-finish", Seq: op.Call,
						Msg: fmt.Sprintf("txn %d Get on a finished transaction found %s", t.ID, op.Got)})
				}
			case "after-commit":
				if op.Err != "discarded" {
					vs = append(vs, Violation{Oracle: "misuse", Class: "use-after-finish", Seq: op.Call,
						Msg: fmt.Sprintf("txn %d Commit on a finished transaction returned %q, want ErrDiscardedTxn", t.ID, op.Err)})
				}
			}
		}
		// outcome
		commit := false
		switch {
		case !update:
			if t.Err != "" && !(t.End == "error" && t.Err == "closure") {
				vs = append(vs, Violation{Oracle: "api-error", Class: "ro-finish-error", Seq: t.EndCall,
					Msg: fmt.Sprintf("read-only txn %d finished with %q", t.ID, t.Err)})
			}
		case t.End == "error":
			if t.Err != "closure" {
				vs = append(vs, Violation{Oracle: "api-error", Class: "closure-error-lost", Seq: t.EndCall,
					Msg: fmt.Sprintf("Update whose closure failed returned %q, want the closure's error", t.Err)})
			}
		case t.End == "discard":
		default:
			if t.Err == "" {
				commit = true
			} else {
				cls := "unexpected-" + t.Err
				vs = append(vs, Violation{Oracle: "m-ssi-seq", Class: cls, Seq: t.EndCall,
					Msg: fmt.Sprintf("txn %d with no concurrent transaction: Commit returned %q", t.ID, t.Err)})
			}
		}
		if commit {
			sort.Strings(order)
			for _, k := range order {
				v := overlay[k]
				m.state[k] = v
				if v.present {
					m.everSet[k] = true
					if w, ok := m.writers[v.id]; ok {
						w.committed = true
						m.writers[v.id] = w
					}
				}
			}
		}
	}
	return vs, m
}
