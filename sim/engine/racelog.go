package engine

import (
	"fmt"
	"os"
	"sort"
	"strings"
)

// The race detector writes its reports to $VERIF_RACELOG.<pid> (GORACE
// log_path). Runs are sequential in a worker, so the bytes appended between
// the start of a run and the moment its scheduler stops belong to that run.

func raceLogPath() string {
	p := os.Getenv("VERIF_RACELOG")
	if p == "" {
		return ""
	}
	return fmt.Sprintf("%s.%d", p, os.Getpid())
}

func raceLogSize() int64 {
	p := raceLogPath()
	if p == "" {
		return 0
	}
	st, err := os.Stat(p)
	if err != nil {
		return 0
	}
	return st.Size()
}

func raceLogRead(from, to int64) string {
	p := raceLogPath()
	if p == "" || to <= from {
		return ""
	}
	f, err := os.Open(p)
	if err != nil {
		return ""
	}
	defer f.Close()
	b := make([]byte, to-from)
	n, _ := f.ReadAt(b, from)
	return string(b[:n])
}

type raceStack struct {
	kind   string // "Read", "Write", "Previous write", ...
	frames [][2]string
}

type RaceReport struct {
	A, B  string // normalised access sites (engine function, file:line)
	Class string
	Text  string
}

const enginePrefix = "github.com/B1NARY-GR0UP/originium"

func isStdFrame(fn string) bool {
	if strings.HasPrefix(fn, "runtime.") || strings.HasPrefix(fn, "sync.") || strings.HasPrefix(fn, "sync/") ||
		strings.HasPrefix(fn, "internal/") {
		return true
	}
	// a function of the standard library: first path element has no dot
	slash := strings.Index(fn, "/")
	first := fn
	if slash >= 0 {
		first = fn[:slash]
	} else if dot := strings.Index(fn, "."); dot >= 0 {
		first = fn[:dot]
	}
	return !strings.Contains(first, ".") && !strings.HasPrefix(fn, "verifsim")
}

// site returns the first engine frame of a stack, provided no harness frame
// comes before it (then the access is the harness' own).
func (s raceStack) site() (string, bool) {
	for _, f := range s.frames {
		fn := f[0]
		switch {
		case strings.HasPrefix(fn, enginePrefix):
			short := strings.TrimPrefix(fn, enginePrefix)
			short = strings.TrimLeft(short, "/.")
			loc := f[1]
			if i := strings.LastIndex(loc, "/"); i >= 0 {
				loc = loc[i+1:]
			}
			if i := strings.Index(loc, " "); i >= 0 {
				loc = loc[:i]
			}
			return short + " " + loc, true
		case strings.HasPrefix(fn, "verifsim"):
			return "", false
		case isStdFrame(fn):
			continue
		default:
			// third-party dependency called by ... keep looking for the engine caller
			continue
		}
	}
	return "", false
}

// ParseRaceReports extracts the data race reports whose two accesses are both
// made by engine code (directly or through library code the engine calls).
func ParseRaceReports(text string) []RaceReport {
	var res []RaceReport
	for _, block := range strings.Split(text, "==================") {
		if !strings.Contains(block, "WARNING: DATA RACE") {
			continue
		}
		lines := strings.Split(block, "\n")
		var stacks []raceStack
		var cur *raceStack
		for i := 0; i < len(lines); i++ {
			l := lines[i]
			t := strings.TrimSpace(l)
			switch {
			case strings.HasPrefix(t, "Read at"), strings.HasPrefix(t, "Write at"), strings.HasPrefix(t, "Previous read at"),
				strings.HasPrefix(t, "Previous write at"), strings.HasPrefix(t, "Atomic"), strings.HasPrefix(t, "Previous atomic"):
				stacks = append(stacks, raceStack{kind: strings.SplitN(t, " at ", 2)[0]})
				cur = &stacks[len(stacks)-1]
			case strings.HasPrefix(t, "Goroutine "):
				cur = nil
			case cur != nil && strings.HasPrefix(l, "  ") && !strings.HasPrefix(l, "      ") && t != "":
				fn := strings.TrimSuffix(t, "()")
				loc := ""
				if i+1 < len(lines) {
					loc = strings.TrimSpace(lines[i+1])
				}
				cur.frames = append(cur.frames, [2]string{fn, loc})
			}
		}
		if len(stacks) < 2 {
			continue
		}
		a, okA := stacks[0].site()
		b, okB := stacks[1].site()
		if !okA || !okB {
			continue
		}
		fa := strings.SplitN(a, " ", 2)[0]
		fb := strings.SplitN(b, " ", 2)[0]
		pair := []string{fa, fb}
		sort.Strings(pair)
		res = append(res, RaceReport{A: stacks[0].kind + " " + a, B: stacks[1].kind + " " + b,
			Class: "race:" + pair[0] + "|" + pair[1], Text: strings.TrimSpace(block)})
	}
	return res
}
