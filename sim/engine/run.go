package engine

import (
	"bytes"
	"errors"
	"fmt"
	"os"
	"runtime/debug"
	"strings"
	"testing"
	"time"

	"github.com/B1NARY-GR0UP/originium"
	"github.com/B1NARY-GR0UP/originium/pkg/logger"
	"github.com/B1NARY-GR0UP/originium/types"

	"verifsim/simrt"
)

// ------------------------------------------------------------------ history

type OpRec struct {
	K     string `json:"k"`
	Key   string `json:"key,omitempty"`
	Val   string `json:"val,omitempty"` // written id
	Pad   int    `json:"pad,omitempty"`
	Got   string `json:"got,omitempty"` // id of the value read
	Found bool   `json:"found,omitempty"`
	Err   string `json:"err,omitempty"`
	Call  int    `json:"call"`
	Ret   int    `json:"ret"`
}

type TxnRec struct {
	Client    int     `json:"client"`
	ID        int     `json:"id"`
	Inst      int     `json:"inst"`
	Mode      string  `json:"mode"`
	End       string  `json:"end"`
	BeginCall int     `json:"begin_call"`
	BeginRet  int     `json:"begin_ret"`
	Ops       []OpRec `json:"ops"`
	EndCall   int     `json:"end_call"`
	EndRet    int     `json:"end_ret"`
	Err       string  `json:"err,omitempty"` // result of Commit / Update / View
	Began     bool    `json:"began"`
	Finished  bool    `json:"finished"` // the finishing call returned
	ReadTs    uint64  `json:"read_ts,omitempty"`   // the engine's read timestamp (verif accessor)
	CommitTs  uint64  `json:"commit_ts,omitempty"` // resolved after the run for transactions the real-time rule cannot order (C07); 0 = unknown
}

// Event is one entry of a client's history.
type Event struct {
	Kind string  `json:"kind"` // txn | restart | closedops
	Txn  *TxnRec `json:"txn,omitempty"`
	Inst int     `json:"inst,omitempty"` // restart: new instance number
	Seq  int     `json:"seq,omitempty"`
	Errs []string `json:"errs,omitempty"` // closedops: results of View/Update after Close
}

type History struct {
	Clients [][]Event `json:"clients"`
	Final   []Event   `json:"final,omitempty"`
}

// Probes counts rare conditions the exploration must reach.
type Probes map[string]int

type RunResult struct {
	Case     *Case
	Hist     *History
	Sim      *simrt.Sim
	Fatal    string // engine panic / open failure: (kind: message)
	FatalStk string
	FatalInst int // instance number (1 = first Open) in which the fatal event happened
	Probes   Probes
	Images   []*CrashImage
	WallNS   int64
	MaxLevel int
	NTables  int
	Races    []RaceReport
	FlusherAlive bool // the flusher task of a closed instance had not exited when Close returned
}

// ------------------------------------------------------------------ silent logger

type quietLogger struct{}

func (quietLogger) Debugf(string, ...any) {}
func (quietLogger) Infof(string, ...any)  {}
func (quietLogger) Warnf(string, ...any)  {}
func (quietLogger) Errorf(string, ...any) {}
func (quietLogger) Fatalf(string, ...any) {}
func (quietLogger) Panicf(format string, args ...any) {
	panic(fmt.Sprintf(format, args...))
}

func init() { logger.SetLogger(quietLogger{}) }

// ------------------------------------------------------------------ runner

type Runner struct {
	c     *Case
	s     *simrt.Sim
	dir   string
	db    *originium.DB
	dbs   []*originium.DB
	inst  int
	hist  *History
	vals  map[string]int
	res   *RunResult
	crash *crashRecorder
	open  bool
	ack   *AckModel
	phase string

	commits  int          // successful commits with writes so far
	waiting  map[int]bool // clients parked in a "wait" op
	finished map[int]bool // clients that ran to the end of their program

	ssiViews []*txnView       // C07: committed transactions that have finished
	ssiTried map[*TxnRec]bool // C07: commit timestamp already asked for
}

var errClosure = errors.New("closure failed on purpose")

// updateRecovering is db.Update called by a client that survives a panic of its own closure: the panic
// value (always errClosure here) becomes the returned error. Any other panic is not ours and goes on.
func updateRecovering(db *originium.DB, fn func(*originium.Txn) error) (err error) {
	defer func() {
		if p := recover(); p != nil {
			if e, ok := p.(error); ok && e == errClosure {
				err = errClosure
				return
			}
			panic(p)
		}
	}()
	return db.Update(fn)
}

func errName(err error) string {
	switch {
	case err == nil:
		return ""
	case errors.Is(err, originium.ErrConflictTxn):
		return "conflict"
	case errors.Is(err, originium.ErrDiscardedTxn):
		return "discarded"
	case errors.Is(err, originium.ErrReadOnlyTxn):
		return "readonly"
	case errors.Is(err, originium.ErrEmptyKey):
		return "emptykey"
	case errors.Is(err, originium.ErrDBClosed):
		return "closed"
	case errors.Is(err, errClosure):
		return "closure"
	}
	return "other:" + err.Error()
}

func toCfg(c Cfg) originium.Config {
	return originium.Config{
		SkipListMaxLevel:       c.SkipListMaxLevel,
		SkipListP:              c.SkipListP,
		MemtableByteThreshold:  c.MemtableByteThreshold,
		ImmutableBuffer:        c.ImmutableBuffer,
		DataBlockByteThreshold: c.DataBlockByteThreshold,
		L0TargetNum:            c.L0TargetNum,
		LevelRatio:             c.LevelRatio,
	}
}

func poisonBuf(x any) {
	if b, ok := x.(*bytes.Buffer); ok {
		s := b.AvailableBuffer()
		s = s[:cap(s)]
		for i := range s {
			s[i] = 0xDB
		}
	}
}

func (r *Runner) fatal(kind string, v any, stk string) {
	if r.res.Fatal == "" {
		r.res.Fatal = fmt.Sprintf("%s: %v", kind, v)
		r.res.FatalStk = stk
		r.res.FatalInst = r.inst
	}
}

// guard runs f and converts an engine panic into a fatal result; it reports
// whether f completed.
func (r *Runner) guard(kind string, f func()) (ok bool) {
	defer func() {
		if v := recover(); v != nil {
			r.fatal(kind, v, string(debug.Stack()))
			ok = false
		}
	}()
	f()
	return true
}

func (r *Runner) openDB(cfgIdx int) bool {
	r.inst++
	r.s.SpawnTag = r.inst
	cfg := toCfg(r.c.Configs[cfgIdx])
	var db *originium.DB
	var err error
	ok := r.guard("open-panic", func() {
		r.s.APIBegin("open")
		db, err = originium.Open(r.dir, cfg)
		r.s.APIEnd()
	})
	r.s.SpawnTag = 0
	if !ok {
		return false
	}
	if err != nil {
		r.fatal("open-error", err, "")
		return false
	}
	r.db = db
	r.dbs = append(r.dbs, db)
	r.open = true
	return true
}

func (r *Runner) closeDB() bool {
	prev := r.phase
	r.phase = "close"
	ok := r.guard("close-panic", func() {
		r.s.APIBegin("close")
		r.db.Close()
		r.s.APIEnd()
	})
	r.phase = prev
	r.open = false
	return ok
}

func (r *Runner) value(op Op) []byte {
	r.vals[op.Val] = op.Pad
	return MakeValue(op.Val, op.Pad)
}

func (r *Runner) gotID(v []byte, found bool) string {
	if !found {
		return ""
	}
	if len(v) == 0 {
		return "<empty>"
	}
	id := ValueID(v)
	pad, ok := r.vals[id]
	if !ok || !bytes.Equal(v, MakeValue(id, pad)) {
		n := len(v)
		if n > 24 {
			n = 24
		}
		return fmt.Sprintf("CORRUPT(len=%d):%q", len(v), v[:n])
	}
	return id
}

// doOp executes one operation on an open transaction.
func (r *Runner) doOp(client int, txn *originium.Txn, op Op) OpRec {
	rec := OpRec{K: op.K, Key: op.Key, Val: op.Val, Pad: op.Pad}
	key := op.Key
	if strings.HasSuffix(op.K, "-empty") {
		key = ""
	}
	if op.K == "pause" {
		r.s.Yield("pause")
		rec.Call, rec.Ret = r.s.Seq(), r.s.Seq()
		return rec
	}
	if op.K == "wait" {
		// stay open until op.Pad more commits happened (or nobody is left to commit)
		target := r.commits + op.Pad
		r.waiting[client] = true
		r.s.WaitUntil("wait", func() bool {
			if r.commits >= target {
				return true
			}
			for ci := range r.c.Clients {
				if ci != client && !r.finished[ci] && !r.waiting[ci] {
					return false
				}
			}
			return true
		})
		r.waiting[client] = false
		rec.Call, rec.Ret = r.s.Seq(), r.s.Seq()
		if r.commits >= target {
			r.res.Probes["long_reader_spans"]++
		}
		return rec
	}
	r.s.APIBegin(op.K)
	rec.Call = r.s.Seq()
	switch op.K {
	case "get", "get-empty":
		v, ok := txn.Get(key)
		rec.Found = ok
		rec.Got = r.gotID(v, ok)
	case "set", "set-ro", "set-empty":
		rec.Err = errName(txn.Set(key, r.value(op)))
	case "del", "del-empty":
		rec.Err = errName(txn.Delete(key))
	}
	rec.Ret = r.s.Seq()
	r.s.APIEnd()
	return rec
}

func (r *Runner) runTxn(client int, t *TxnProg) *TxnRec {
	rec := &TxnRec{Client: client, ID: t.ID, Inst: r.inst, Mode: t.Mode, End: t.End}
	db := r.db
	switch t.Mode {
	case "update", "view":
		fn := func(txn *originium.Txn) error {
			rec.BeginRet = r.s.Seq()
			rec.Began = true
			rec.ReadTs = txn.VerifReadTs()
			r.s.APIEnd()
			for _, op := range t.Ops {
				rec.Ops = append(rec.Ops, r.doOp(client, txn, op))
			}
			r.s.APIBegin("end")
			rec.EndCall = r.s.Seq()
			if t.End == "error" {
				if t.Panic {
					r.res.Probes["closure_panics"]++
					panic(errClosure)
				}
				return errClosure
			}
			if t.Mode == "update" {
				r.ackBegin(client, rec)
			}
			return nil
		}
		r.s.APIBegin("begin")
		rec.BeginCall = r.s.Seq()
		var err error
		if t.Mode == "update" {
			err = updateRecovering(db, fn)
		} else {
			err = db.View(fn)
		}
		rec.EndRet = r.s.Seq()
		rec.Finished = true
		rec.Err = errName(err)
		if t.Mode == "update" && t.End != "error" {
			r.ackEnd(client, rec.Err == "")
		}
		r.s.APIEnd()
	default: // rw, ro
		r.s.APIBegin("begin")
		rec.BeginCall = r.s.Seq()
		txn := db.Begin(t.Mode == "rw")
		rec.BeginRet = r.s.Seq()
		rec.Began = true
		rec.ReadTs = txn.VerifReadTs()
		r.s.APIEnd()
		for _, op := range t.Ops {
			rec.Ops = append(rec.Ops, r.doOp(client, txn, op))
		}
		r.s.APIBegin("end")
		rec.EndCall = r.s.Seq()
		switch t.End {
		case "discard":
			txn.Discard()
		default:
			if t.Mode == "rw" {
				r.ackBegin(client, rec)
			}
			rec.Err = errName(txn.Commit())
			if t.Mode == "rw" {
				r.ackEnd(client, rec.Err == "")
			}
		}
		rec.EndRet = r.s.Seq()
		rec.Finished = true
		r.s.APIEnd()
		if t.End == "after" {
			// use after finish: every call must answer ErrDiscardedTxn / not found
			k := r.c.Keys[0]
			a := OpRec{K: "after-set", Key: k, Val: fmt.Sprintf("after.%d.%d", client, t.ID)}
			a.Call = r.s.Seq()
			a.Err = errName(txn.Set(k, r.value(Op{Val: a.Val, Pad: 0})))
			a.Ret = r.s.Seq()
			rec.Ops = append(rec.Ops, a)
			d := OpRec{K: "after-del", Key: k}
			d.Call = r.s.Seq()
			d.Err = errName(txn.Delete(k))
			d.Ret = r.s.Seq()
			rec.Ops = append(rec.Ops, d)
			g := OpRec{K: "after-get", Key: k}
			g.Call = r.s.Seq()
			v, ok := txn.Get(k)
			g.Found, g.Got = ok, r.gotID(v, ok)
			g.Ret = r.s.Seq()
			rec.Ops = append(rec.Ops, g)
			c := OpRec{K: "after-commit"}
			c.Call = r.s.Seq()
			c.Err = errName(txn.Commit())
			c.Ret = r.s.Seq()
			rec.Ops = append(rec.Ops, c)
		}
	}
	return rec
}

// ackBegin registers the write set of a commit that is about to be called.
func (r *Runner) ackBegin(client int, rec *TxnRec) {
	if r.ack == nil {
		return
	}
	ws := map[string]mval{}
	var order []string
	for _, op := range rec.Ops {
		if op.Err != "" {
			continue
		}
		switch op.K {
		case "set":
			if _, ok := ws[op.Key]; !ok {
				order = append(order, op.Key)
			}
			ws[op.Key] = mval{id: op.Val, pad: op.Pad, present: true}
		case "del":
			if _, ok := ws[op.Key]; !ok {
				order = append(order, op.Key)
			}
			ws[op.Key] = mval{}
		}
	}
	r.phase = "commit"
	r.ack.begin(client, ws, order)
}

func (r *Runner) ackEnd(client int, committed bool) {
	if committed {
		r.commits++
	}
	if r.ack == nil {
		return
	}
	r.ack.end(client, committed)
	r.phase = ""
}

func (r *Runner) drain() {
	db := r.db
	r.s.WaitUntil("drain", func() bool { return db.VerifIdle() })
}

// sweep reads every key of the case in one read-only transaction.
func (r *Runner) sweep(client, id int) *TxnRec {
	t := &TxnProg{ID: id, Mode: "view", End: "commit"}
	for _, k := range r.c.Keys {
		t.Ops = append(t.Ops, Op{K: "get", Key: k})
	}
	return r.runTxn(client, t)
}

func (r *Runner) runClient(ci int) {
	ok := r.guard("client-panic", func() {
		for _, a := range r.c.Clients[ci].Actions {
			if r.res.Fatal != "" {
				return
			}
			switch a.Kind {
			case "txn":
				rec := r.runTxn(ci, a.Txn)
				r.hist.Clients[ci] = append(r.hist.Clients[ci], Event{Kind: "txn", Txn: rec})
				r.noteFinished(rec)
			case "drain":
				r.drain()
			case "restart", "restart-closedops":
				if !r.closeDB() {
					return
				}
				old := r.db
				var errs []string
				if a.Kind == "restart-closedops" {
					errs = append(errs, errName(old.View(func(*originium.Txn) error { return nil })))
					errs = append(errs, errName(old.Update(func(t *originium.Txn) error { return t.Set(r.c.Keys[0], []byte("closed!")) })))
				}
				if a.Gap > 0 {
					r.s.Sleep(time.Duration(a.Gap))
				}
				r.phase = "recovery"
				if !r.openDB(a.Cfg) {
					return
				}
				r.phase = ""
				r.hist.Clients[ci] = append(r.hist.Clients[ci], Event{Kind: "restart", Inst: r.inst, Seq: r.s.Seq(), Errs: errs})
				r.res.Probes["restart"]++
				// read everything back right after the reopen
				rec := r.sweep(ci, -r.inst)
				r.hist.Clients[ci] = append(r.hist.Clients[ci], Event{Kind: "txn", Txn: rec})
			}
		}
	})
	_ = ok
}

func boolInt(b bool) int {
	if b {
		return 1
	}
	return 0
}

func countTables(dir string) (n, maxLevel int) {
	ents, _ := os.ReadDir(dir)
	for _, e := range ents {
		var l, i int
		if _, err := fmt.Sscanf(e.Name(), "%d-%d.db", &l, &i); err == nil && strings.HasSuffix(e.Name(), ".db") {
			n++
			if l > maxLevel {
				maxLevel = l
			}
		}
	}
	return
}

// RunCase executes one case in its own bubble and returns the recorded history.
func RunCase(t *testing.T, c *Case, trace bool) *RunResult {
	start := time.Now()
	dir, err := os.MkdirTemp("/dev/shm", "verif-run-")
	if err != nil {
		panic(err)
	}
	defer os.RemoveAll(dir)
	res := &RunResult{Case: c, Probes: Probes{}}
	r := &Runner{c: c, dir: dir, vals: map[string]int{}, res: res, waiting: map[int]bool{}, finished: map[int]bool{}, ssiTried: map[*TxnRec]bool{},
		hist: &History{Clients: make([][]Event, len(c.Clients))}}
	res.Hist = r.hist
	opt := simrt.Options{
		Seed: c.Seed, Strategy: c.Sim.Strategy, StickyP: c.Sim.StickyP, PCTDepth: c.Sim.PCTDepth,
		OpAtomic: c.Sim.OpAtomic, Dir: dir, PoolSim: c.Sim.PoolSim, ClockWide: c.Sim.ClockWide, Trace: trace,
		Teardown: func(s *simrt.Sim) {
			for _, db := range r.dbs {
				func() {
					defer func() { recover() }()
					db.VerifKill()
				}()
			}
		},
	}
	if c.Sim.Poison {
		opt.Poison = poisonBuf
	}
	raceFrom := raceLogSize()
	raceTo := int64(-1)
	opt.OnEnd = func(*simrt.Sim) { raceTo = raceLogSize() }
	defer func() {
		if raceTo < 0 {
			raceTo = raceLogSize()
		}
		if raceTo > raceFrom {
			res.Races = ParseRaceReports(raceLogRead(raceFrom, raceTo))
		}
	}()
	if c.Crash != nil {
		r.ack = newAckModel()
		r.crash = newCrashRecorder(r)
		opt.OnFS = r.crash.onFS
	}
	if c.BaseTs > 0 {
		// plant a table with one foreign key at version BaseTs (outside the simulation)
		lm := originium.VerifNewLM(dir, toCfg(c.Configs[0]), 0)
		_ = lm.Flush([]types.Entry{{Key: types.KeyWithTs("~base~", c.BaseTs), Value: []byte("base"), Version: int64(c.BaseTs)}})
		lm.Stop()
		res.Probes["planted_base_ts"]++
	}
	s := simrt.Run(t, opt, func(s *simrt.Sim) {
		r.s = s
		r.phase = "recovery"
		if !r.openDB(0) {
			return
		}
		r.phase = ""
		if len(c.Clients) == 1 {
			r.runClient(0)
		} else {
			left := len(c.Clients)
			for ci := range c.Clients {
				ci := ci
				s.Go(fmt.Sprintf("client%d", ci), true, func() {
					r.runClient(ci)
					r.finished[ci] = true
					left--
				})
			}
			s.WaitUntil("join", func() bool { return left == 0 })
		}
		if res.Fatal != "" {
			return
		}
		if c.Final && r.open && !c.Reopen {
			r.guard("client-panic", func() {
				r.drain()
				n, ml := countTables(dir)
				res.NTables, res.MaxLevel = n, ml
				rec := r.sweep(0, 1000000)
				r.hist.Final = append(r.hist.Final, Event{Kind: "txn", Txn: rec})
			})
		}
		if c.Reopen && r.open && res.Fatal == "" {
			// C15: Close with whatever is pending, reopen at once, read everything back
			r.guard("client-panic", func() {
				res.Probes["close_with_pending_flush"] += boolInt(!r.db.VerifIdle())
				if !r.closeDB() {
					return
				}
				for _, tk := range s.Tasks() {
					if !tk.Client && tk.Tag == r.inst && !tk.Done() && strings.Contains(tk.Name, "Open") {
						res.FlusherAlive = true
					}
				}
				s.Sleep(1)
				r.phase = "recovery"
				if !r.openDB(0) {
					return
				}
				r.phase = ""
				n, ml := countTables(dir)
				res.NTables, res.MaxLevel = n, ml
				rec := r.sweep(0, 1000000)
				r.hist.Final = append(r.hist.Final, Event{Kind: "txn", Txn: rec})
			})
		}
		if r.open && res.Fatal == "" {
			r.closeDB()
		}
		if res.NTables == 0 {
			res.NTables, res.MaxLevel = countTables(dir)
		}
	})
	res.Sim = s
	if s.Abort != "" && res.Fatal == "" {
		stk := ""
		for _, tk := range s.Tasks() {
			if tk.PanicVal != nil {
				stk = tk.PanicStack
			}
		}
		res.Fatal = "background-panic: " + s.Abort
		res.FatalStk = stk
	}
	if r.crash != nil {
		res.Images = r.crash.images
	}
	res.WallNS = time.Since(start).Nanoseconds()
	return res
}

// Commit timestamps for C07. For the transactions whose order the real-time
// rule of CheckSSI cannot decide (commits overlapping the judged transaction's
// Begin or Commit) the run asks the engine which commit timestamp it gave them:
// the smallest timestamp at which a read of a key they Set returns the (unique)
// value they wrote. It is asked as soon as both transactions of such a pair have
// finished (later, compaction may have discarded the version; then it stays 0).
func (r *Runner) noteFinished(rec *TxnRec) {
	if r.c.Prop != "C07" || r.c.Sim.OpAtomic || !rec.Finished || !rec.Began {
		return
	}
	vx := viewOf(rec)
	if !vx.committed {
		return
	}
	for _, vt := range r.ssiViews {
		if len(vt.reads) == 0 {
			continue
		}
		if _, amb := ssiOverlaps(vt.t, vt, []*txnView{vx}); len(amb) > 0 {
			r.resolveCommitTs(vt)
			r.resolveCommitTs(vx)
		}
	}
	if len(vx.reads) > 0 {
		_, amb := ssiOverlaps(rec, vx, r.ssiViews)
		for _, u := range amb {
			r.resolveCommitTs(vx)
			r.resolveCommitTs(u)
		}
	}
	r.ssiViews = append(r.ssiViews, vx)
}

func (r *Runner) resolveCommitTs(v *txnView) {
	t := v.t
	if r.ssiTried[t] || !r.open {
		return
	}
	r.ssiTried[t] = true
	for _, k := range v.wkeys {
		w := v.writes[k]
		if !w.present || w.pad < 0 || w.id == "" {
			continue // deletions and empty values are not attributable to one writer
		}
		for ts := t.ReadTs + 1; ts <= t.ReadTs+uint64(r.commits)+4; ts++ {
			got, ok := r.db.VerifGetAt(k, ts)
			r.res.Probes["commit_ts_probes"]++
			if ok && r.gotID(got, true) == w.id {
				t.CommitTs = ts
				r.res.Probes["commit_ts_resolved"]++
				return
			}
		}
	}
	r.res.Probes["commit_ts_unknown"]++
}
