package engine

import (
	"fmt"
	"testing"

	"verifsim/simrt"
)

var curT *testing.T

// GenCrash generates the recording run of the crash profiles: a single writer
// (optionally more, with disjoint key ownership), small thresholds so that
// commits, rotations, flushes, compactions and Close all occur.
// genCloseWindow: a few hot keys overwritten again and again, memtables that
// hold two or three transactions, a flusher that is starved so that frozen
// memtables queue up, and Close/Open cycles in between: the states in which
// the active memtable is newer than what is queued when Close (or a crash)
// arrives.
func genCloseWindow(seed uint64, prop string) *Case {
	r := simrt.NewSplitMix(seed ^ 0xc105e)
	c := &Case{Prop: prop, Profile: "crash", Seed: seed, Final: false}
	c.Sim = genSim(&r)
	if r.Intn(3) > 0 {
		c.Sim.Strategy = simrt.StratStarve
	}
	c.Keys = pickKeys(&r, 2+r.Intn(2))
	cfg := genCfg(&r, true)
	cfg.MemtableByteThreshold = []int{70, 100, 140, 200}[r.Intn(4)]
	cfg.ImmutableBuffer = []int{1, 2, 10}[r.Intn(3)]
	c.Configs = []Cfg{cfg}
	vg := &valGen{client: 0}
	var acts []Action
	n := 12 + r.Intn(28)
	for i := 0; i < n; i++ {
		t := &TxnProg{ID: i, Mode: "update", End: "commit"}
		for j := 0; j < 1+r.Intn(2); j++ {
			id, _ := vg.next(&r, i)
			k := c.Keys[r.Intn(len(c.Keys))]
			if r.Intn(8) == 0 {
				t.Ops = append(t.Ops, Op{K: "del", Key: k})
			} else {
				t.Ops = append(t.Ops, Op{K: "set", Key: k, Val: id, Pad: r.Intn(12)})
			}
		}
		acts = append(acts, Action{Kind: "txn", Txn: t})
		if r.Intn(10) == 0 {
			nc := nextCfg(&r, cfg, true)
			nc.MemtableByteThreshold = []int{70, 100, 140, 200}[r.Intn(4)]
			nc.ImmutableBuffer = []int{1, 2, 10}[r.Intn(3)]
			c.Configs = append(c.Configs, nc)
			acts = append(acts, Action{Kind: "restart", Cfg: len(c.Configs) - 1, Gap: restartGap(&r)})
		}
	}
	c.Clients = []ClientProg{{Actions: acts}}
	c.Crash = &CrashPlan{Depth: 1, PostTxns: 1 + r.Intn(3)}
	if prop == "C14" {
		c.Crash.TailCuts = true
	}
	return c
}

func GenCrash(seed uint64, prop string, tier string) *Case {
	if seed%4 == 1 {
		return genCloseWindow(seed, prop)
	}
	p := SeqParams{MinTxns: 4, MaxTxns: 40, Small: true, Restarts: true}
	c := GenSeq(seed, prop, p)
	c.Profile = "crash"
	r := simrt.NewSplitMix(seed ^ 0xc4a54)
	// weight multi-key transactions (C04) and keep clean restarts rare
	for ci := range c.Clients {
		var acts []Action
		for _, a := range c.Clients[ci].Actions {
			if a.Kind == "restart" && r.Intn(3) > 0 {
				continue
			}
			if a.Kind == "txn" && (a.Txn.Mode == "update" || a.Txn.Mode == "rw") && r.Intn(2) == 0 {
				vg := &valGen{client: 5, n: a.Txn.ID * 10}
				extra := genTxnOps(&r, c.Keys, vg, a.Txn.ID, true, 2+r.Intn(4))
				a.Txn.Ops = append(a.Txn.Ops, extra...)
			}
			acts = append(acts, a)
		}
		c.Clients[ci].Actions = acts
	}
	// now and then one bulk transaction whose wal record batch is far larger than any buffer or block size
	if r.Intn(5) == 0 && len(c.Clients[0].Actions) > 0 {
		vg := &valGen{client: 7}
		t := &TxnProg{ID: 9000, Mode: "update", End: "commit"}
		for _, k := range c.Keys {
			id, _ := vg.next(&r, 9000)
			t.Ops = append(t.Ops, Op{K: "set", Key: k, Val: id, Pad: 9000 + r.Intn(14000)})
		}
		acts := c.Clients[0].Actions
		at := r.Intn(len(acts) + 1)
		acts = append(acts[:at], append([]Action{{Kind: "txn", Txn: t}}, acts[at:]...)...)
		c.Clients[0].Actions = acts
	}
	// rarely one transaction with a value above 1 MiB among small writes (sanity bounds, size fields, buffers)
	if r.Intn(16) == 0 && len(c.Clients[0].Actions) > 0 {
		vg := &valGen{client: 8}
		t := &TxnProg{ID: 9500, Mode: "update", End: "commit"}
		for i, k := range c.Keys {
			if i >= 3 {
				break
			}
			id, _ := vg.next(&r, 9500)
			pad := 3 + r.Intn(20)
			if i == 1 {
				pad = 1100000 + r.Intn(700000)
			}
			t.Ops = append(t.Ops, Op{K: "set", Key: k, Val: id, Pad: pad})
		}
		acts := c.Clients[0].Actions
		at := r.Intn(len(acts) + 1)
		acts = append(acts[:at], append([]Action{{Kind: "txn", Txn: t}}, acts[at:]...)...)
		c.Clients[0].Actions = acts
		// keep the memtable large enough now and then, so that the record stays in the wal for a while
		if r.Intn(2) == 0 {
			c.Configs[0].MemtableByteThreshold = 4 << 20
		}
	}
	c.Crash = &CrashPlan{Depth: 1, PostTxns: 1 + r.Intn(3)}
	if r.Intn(3) == 0 {
		c.Crash.Depth = 2 + r.Intn(2)
		c.Crash.Nested = 3
		if tier == "thorough" {
			c.Crash.Nested = 6
		}
	}
	if prop == "C14" {
		c.Crash.TailCuts = true
	}
	if tier == "quick" {
		c.Crash.Sample = 0
	}
	c.Sim.Poison = r.Intn(4) == 0
	// half of the recording runs end with Close on whatever is still queued (no drain, no final sweep):
	// crash points inside a Close that overlaps pending flushes
	if r.Intn(2) == 0 {
		c.Final = false
		if r.Intn(2) == 0 {
			c.Sim.Strategy = simrt.StratStarve
		}
	}
	return c
}

// checkCrash recovers the images of a recording run and sorts the verdicts.
func checkCrash(res *RunResult, prop string) *Eval {
	ev := newEval()
	commonEval(res, ev, false, false)
	c := res.Case
	rng := simrt.NewSplitMix(c.Seed ^ 0x1a9e5)
	mine := func(v Violation) bool {
		if prop == "C04" {
			return v.Oracle == "txn-atomicity"
		}
		return v.Oracle != "txn-atomicity"
	}
	seenSig := map[string]bool{}
	imgHashes := map[uint64]bool{}
	var recoverAll func(images []*CrashImage, depth int)
	recoverAll = func(images []*CrashImage, depth int) {
		nestedPick := map[int]bool{}
		if depth < c.Crash.Depth && len(images) > 0 {
			n := c.Crash.Nested
			if depth > 1 {
				n = (n + 2) / 3 // the third level is sampled more thinly
			}
			for i := 0; i < n; i++ {
				nestedPick[rng.Intn(len(images))] = true
			}
		}
		for ii, img := range images {
			if len(c.Crash.Only) > 0 {
				// replay of one crash point
				if len(img.Path) > len(c.Crash.Only) {
					continue
				}
				match := true
				for i := range img.Path {
					if img.Path[i] != c.Crash.Only[i] {
						match = false
					}
				}
				if !match {
					continue
				}
			}
			variants := []*CrashImage{img}
			if c.Crash.TailCuts {
				variants = tailCutImages(img, &rng, 16)
			}
			wantNested := depth < c.Crash.Depth && (nestedPick[ii] || len(c.Crash.Only) > depth)
			// the recovery whose own crash points are enumerated next: the plain image,
			// or (two times in three, when tails are cut) one of its cut variants - a
			// recovery that starts from a torn file and is itself interrupted
			nestedVar := 0
			if wantNested && len(variants) > 1 && rng.Intn(3) > 0 {
				nestedVar = 1 + rng.Intn(len(variants)-1)
			}
			if len(c.Crash.Only) > depth && c.Crash.OnlyCut != nil && depth-1 < len(c.Crash.OnlyCut) {
				nestedVar = c.Crash.OnlyCut[depth-1]
			}
			for vi, v := range variants {
				seed := mixSeed(c.Seed, 7919*len(img.Path)+img.Path[len(img.Path)-1]*31+vi)
				rr := RecoverImage(curT, c, v, seed, wantNested && vi == nestedVar)
				ev.Evaluations++
				ev.AuxHash = (ev.AuxHash ^ rr.Sim.Hash) * 0x100000001b3
				if rr.Sim.Leaked > 0 {
					ev.Probes["leaked_goroutines"] += rr.Sim.Leaked
				}
				ev.Faults["crash:"+img.Phase]++
				ev.Faults["crash-op:"+simrt.FSOpName(img.Op)+":"+fileKind(img.Name)]++
				ev.Faults[fmt.Sprintf("crash-depth:%d", depth)]++
				if v.CutTag != "" {
					ev.Faults["tail-cut-images"]++
				}
				if rr.WalFiles > 1 {
					ev.Probes["recovery_multi_wal"]++
				}
				if rr.WalFiles > 0 && rr.Tables > 0 {
					ev.Probes["recovery_wal_and_tables"]++
				}
				if len(img.Ack.Inflight) > 0 {
					for _, it := range img.Ack.Inflight {
						sz := 0
						for _, v := range it.New {
							if v.pad > 0 {
								sz += v.pad
							}
						}
						if sz > 65536 {
							ev.Probes["crash_with_inflight_commit_over_64KiB"]++
						}
						if sz > 1<<20 {
							ev.Probes["crash_with_inflight_commit_over_1MiB"]++
						}
					}
					ev.Probes["crash_with_inflight_commit"]++
					if len(img.Ack.Inflight[0].Keys) > 1 {
						ev.Probes["crash_with_inflight_multikey_commit"]++
					}
				}
				imgHashes[v.Image.Hash()] = true
				for _, x := range rr.Violations {
					if !mine(x) {
						ev.Foreign[x.Oracle]++
						continue
					}
					sig := x.Oracle + "/" + x.Class
					if seenSig[sig] {
						continue
					}
					seenSig[sig] = true
					x.Seq = img.Path[0]
					ev.Mine = append(ev.Mine, x)
				}
				if wantNested && vi == nestedVar && len(rr.Nested) > 0 {
					recoverAll(rr.Nested, depth+1)
				}
			}
		}
	}
	recoverAll(res.Images, 1)
	ev.Probes["distinct_images"] += len(imgHashes)
	seqProbes(res, ev)
	ev.Nontrivial = ev.Evaluations > 0 && res.NTables > 0
	ev.Summary = fmt.Sprintf("recording run with %d crash points (%d distinct images), %d recoveries checked (M-ack / atomicity / Open succeeds / post-recovery commits retained)",
		res.Probes["crash_points"], len(res.Images), ev.Evaluations)
	return ev
}

func init() {
	for _, p := range []string{"C03", "C04", "C14"} {
		p := p
		Specs[p] = Spec{
			Gen:   func(seed uint64, tier string) *Case { return GenCrash(seed, p, tier) },
			Check: func(res *RunResult) *Eval { return checkCrash(res, p) },
		}
	}
}

func init() {
	// development aid: only close-window cases
	Specs["DEVCW"] = Spec{
		Gen:   func(seed uint64, tier string) *Case { return genCloseWindow(seed, "C03") },
		Check: func(res *RunResult) *Eval { return checkCrash(res, "C03") },
	}
}
