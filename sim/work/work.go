// Package work is the worker-side protocol shared by the simulation binaries:
// the driver (/verif/bin/check) hands a Job to a worker process, the worker
// runs seeded cases and writes one WorkerOut.
package work

import (
	"encoding/json"
	"fmt"
	"os"
	"sort"
	"testing"
	"time"
)

// Violation is one oracle verdict against a run.
type Violation struct {
	Prop   string `json:"prop"`
	Oracle string `json:"oracle"` // which oracle fired
	Class  string `json:"class"`  // narrow class used for known-finding signatures
	Msg    string `json:"msg"`
	Key    string `json:"key,omitempty"`
	Seq    int    `json:"seq,omitempty"`
}

// Job is what the driver hands to one worker process.
type Job struct {
	Prop     string  `json:"prop"`
	Tier     string  `json:"tier"`
	SeedBase uint64  `json:"seed_base"`
	First    int     `json:"first"` // run indices First, First+Stride, ...
	Count    int     `json:"count"`
	Stride   int     `json:"stride"`
	BudgetS  float64 `json:"budget_s"` // stop starting new runs after this many seconds
	Out      string  `json:"out"`
	Replay   string  `json:"replay,omitempty"` // path of a replay file: run exactly that case
	Trace    bool    `json:"trace,omitempty"`
}

type Found struct {
	Violation
	RunIndex int             `json:"run_index"`
	Seed     uint64          `json:"seed"`
	Case     json.RawMessage `json:"case"`
	Hash     string          `json:"hash"`
	Detail   string          `json:"detail,omitempty"`
}

type WorkerOut struct {
	Prop         string            `json:"prop"`
	Runs         int               `json:"runs"`
	Nontrivial   int               `json:"nontrivial"`
	Steps        int64             `json:"steps"`
	Switches     int64             `json:"switches"`
	FSOps        int64             `json:"fs_ops"`
	SimNS        int64             `json:"sim_ns"`
	WallS        float64           `json:"wall_s"`
	Evaluations  int64             `json:"evaluations"`
	Probes       map[string]int    `json:"probes"`
	Faults       map[string]int    `json:"faults"`
	Foreign      map[string]int    `json:"foreign"`
	Found        []Found           `json:"found"`
	Hashes       []string          `json:"hashes"`
	SwitchPairs  []uint64          `json:"switch_pairs"`
	Sample       any               `json:"sample,omitempty"`
	Inconclusive int               `json:"inconclusive"`
	Strategies   map[string]int    `json:"strategies"`
	RunHashes    map[string]string `json:"run_hashes,omitempty"`
}

// RunOut is what one run contributes.
type RunOut struct {
	Case         any // replayable description (marshalled into replay files)
	Seed         uint64
	Hash         string // event-log hash
	Steps        int
	Switches     int
	FSOps        int
	SimNS        int64
	Evaluations  int
	Inconclusive int
	Nontrivial   bool
	Strategy     string
	Probes       map[string]int
	Faults       map[string]int
	Foreign      map[string]int
	Pairs        map[uint64]struct{}
	Mine         []Violation
	Details      map[string]string // oracle -> detail text
	Sample       any
	TraceText    string
}

// Regen identifies a generated case by its generation parameters (used when
// the process died before the case could be written out).
type Regen struct {
	SeedBase uint64 `json:"seed_base"`
	Index    int    `json:"index"`
	Tier     string `json:"tier"`
}

// ReplayFile is what a VIOLATION line points to.
type ReplayFile struct {
	Property  string          `json:"property"`
	Violation Violation       `json:"violation"`
	Case      json.RawMessage `json:"case"`
	Regen     *Regen          `json:"regen,omitempty"`
	Hash      string          `json:"event_log_hash"`
	Detail    string          `json:"detail,omitempty"`
	Note      string          `json:"note,omitempty"`
}

func MixSeed(base uint64, idx int) uint64 {
	x := base + uint64(idx)*0x9e3779b97f4a7c15
	x ^= x >> 31
	x *= 0xbf58476d1ce4e5b9
	x ^= x >> 29
	if x == 0 {
		x = 1
	}
	return x
}

// Runner runs one case: generated from seed when replay is nil, else the case
// of a replay file.
type Runner func(t *testing.T, seed uint64, tier string, replay json.RawMessage, trace bool) *RunOut

// Main is the body of a binary's TestWorker.
func Main(t *testing.T, runners map[string]Runner, warmup func(t *testing.T)) {
	path := os.Getenv("VERIF_JOB")
	if path == "" {
		t.Skip("VERIF_JOB not set")
	}
	b, err := os.ReadFile(path)
	if err != nil {
		t.Fatal(err)
	}
	var job Job
	if err := json.Unmarshal(b, &job); err != nil {
		t.Fatal(err)
	}
	run, ok := runners[job.Prop]
	if !ok {
		t.Fatalf("no spec for %s", job.Prop)
	}
	out := &WorkerOut{Prop: job.Prop, Probes: map[string]int{}, Faults: map[string]int{}, Foreign: map[string]int{},
		Strategies: map[string]int{}, RunHashes: map[string]string{}}
	start := time.Now()
	pairs := map[uint64]struct{}{}
	if warmup != nil {
		warmup(t)
	}
	lastFlush := time.Now()
	flush := func() {
		var sp []uint64
		for k := range pairs {
			sp = append(sp, k)
		}
		sort.Slice(sp, func(i, j int) bool { return sp[i] < sp[j] })
		out.SwitchPairs = sp
		out.WallS = time.Since(start).Seconds()
		ob, _ := json.Marshal(out)
		tmp := job.Out + ".tmp"
		if err := os.WriteFile(tmp, ob, 0o644); err == nil {
			_ = os.Rename(tmp, job.Out)
		}
	}
	one := func(idx int, seed uint64, replay json.RawMessage) {
		// progress marker: if the process dies (fatal error of the code under test),
		// the driver knows which run it was and keeps the results flushed so far
		_ = os.WriteFile(job.Out+".progress", []byte(fmt.Sprintf(`{"index":%d,"seed":%d}`, idx, seed)), 0o644)
		defer func() {
			if time.Since(lastFlush) > 3*time.Second {
				flush()
				lastFlush = time.Now()
			}
		}()
		ro := run(t, seed, job.Tier, replay, job.Trace)
		out.Runs++
		out.Steps += int64(ro.Steps)
		out.Switches += int64(ro.Switches)
		out.FSOps += int64(ro.FSOps)
		out.SimNS += ro.SimNS
		out.Evaluations += int64(ro.Evaluations)
		out.Inconclusive += ro.Inconclusive
		if ro.Strategy != "" {
			out.Strategies[ro.Strategy]++
		}
		for k, v := range ro.Probes {
			out.Probes[k] += v
		}
		for k, v := range ro.Faults {
			out.Faults[k] += v
		}
		for k, v := range ro.Foreign {
			out.Foreign[k] += v
		}
		for k := range ro.Pairs {
			pairs[k] = struct{}{}
		}
		out.RunHashes[fmt.Sprint(idx)] = ro.Hash
		if ro.Nontrivial {
			out.Nontrivial++
			out.Hashes = append(out.Hashes, ro.Hash)
			if out.Sample == nil {
				out.Sample = ro.Sample
			}
		}
		var cj json.RawMessage
		if len(ro.Mine) > 0 {
			cj, _ = json.Marshal(ro.Case)
		}
		for _, v := range ro.Mine {
			v.Prop = job.Prop
			f := Found{Violation: v, RunIndex: idx, Seed: seed, Case: cj, Hash: ro.Hash, Detail: ro.Details[v.Oracle]}
			if len(out.Found) < 40 {
				out.Found = append(out.Found, f)
			}
		}
		if job.Trace {
			fmt.Println(ro.TraceText)
		}
	}
	if job.Replay != "" {
		rb, err := os.ReadFile(job.Replay)
		if err != nil {
			t.Fatal(err)
		}
		var rf ReplayFile
		if err := json.Unmarshal(rb, &rf); err != nil {
			t.Fatal(err)
		}
		if rf.Regen != nil {
			job.Tier = rf.Regen.Tier
			one(rf.Regen.Index, MixSeed(rf.Regen.SeedBase, rf.Regen.Index), nil)
		} else {
			one(0, 0, rf.Case)
		}
	} else {
		for i := 0; i < job.Count; i++ {
			if job.BudgetS > 0 && time.Since(start).Seconds() > job.BudgetS {
				break
			}
			idx := job.First + i*job.Stride
			one(idx, MixSeed(job.SeedBase, idx), nil)
		}
	}
	flush()
	_ = os.WriteFile(job.Out+".done", []byte("ok"), 0o644)
}
