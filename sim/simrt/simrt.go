// Package simrt is the deterministic simulation runtime: a seeded scheduler that
// runs real goroutines one at a time inside a testing/synctest bubble, with
// every lock, channel operation, select, goroutine start, map iteration,
// pooled buffer and file operation of the code under test passing through
// hooks placed in the standard library by the build overlay (see
// /verif/simrt/gen_overlay.py and DESIGN.md §3).
//
// Everything in this package that touches simulator state is //go:norace and
// the scheduler hand-off runs with race detection disabled, so that a -race
// build sees only the synchronisation of the code under test.
package simrt

import (
	"fmt"
	"os"
	"runtime"
	"runtime/debug"
	"strings"
	"sync"
	"sync/atomic"
	"testing"
	"testing/synctest"
	"time"
	"unsafe"
)

// Site kinds (scheduling points).
const (
	SiteStart = iota
	SiteSend
	SiteSendPost
	SiteRecv
	SiteRecvPost
	SiteClose
	SiteSelect
	SiteSelectPost
	SiteLock
	SiteRLock
	SiteWLock
	SiteFS
	SiteYield
	SiteAPI
	nSiteKinds
)

var siteNames = [...]string{"start", "send", "send+", "recv", "recv+", "close", "select", "select+",
	"lock", "rlock", "wlock", "fs", "yield", "api"}

const (
	stRunning int32 = iota
	stParked
	stDone
)

// Strategy names.
const (
	StratRandom  = "random"
	StratSticky  = "sticky"
	StratPCT     = "pct"
	StratStarve  = "starve-bg"
	StratEager   = "eager-bg"
	StratRoundRb = "round-robin"
)

type Site struct {
	Kind int
	PC   uintptr
	Obj  unsafe.Pointer
	Op   int    // fs op code
	Name string // fs base name / yield tag
	Cond func() bool
	Sleep time.Duration
}

type Task struct {
	ID     int
	Name   string
	Tag    int  // harness-defined (instance number)
	Client bool // run ends when all client tasks are done
	sim    *Sim
	goid   uint64
	wake   chan struct{}
	state  atomic.Int32
	site   Site

	inHook   bool
	inSelect bool
	InAPI    bool
	killed   atomic.Bool
	exiting  bool

	prio int // pct

	// RWMutex writer preference (see admissible)
	parks    uint64 // number of parks so far
	parkStep int    // scheduler step at which it parked
	rwWait  *Task  // reader: the blocked writer it queued behind (nil: a writer that held the lock)
	rwEpoch uint64 // reader: rwWait.parks when it queued
	rwQueue bool   // reader: it has been found blocked at this site

	PanicVal   any
	PanicStack string
	reported   bool
}

func (t *Task) Done() bool { return t.state.Load() == stDone }

// FSEvent describes one mutating file operation about to be executed.
type FSEvent struct {
	Index int // 1-based number of the operation in this run
	Op    int
	Name  string // base name
	Name2 string
	N     int64
	Task  *Task
	Seq   int
}

type Options struct {
	Seed      uint64
	Strategy  string
	StickyP   float64 // for sticky
	PCTDepth  int
	OpAtomic  bool // client API calls do not overlap
	MaxSteps  int  // step budget before round-robin fallback (0 = 200000)
	Dir       string
	PoolSim   bool
	Poison    func(x any) // adversarial pool: called on Put
	Trace     bool        // keep the full event log
	OnFS      func(ev FSEvent)
	ClockWide bool // wide clock-delta distribution
	Teardown  func(s *Sim)
	OnStep    func(s *Sim) string // invariant checked by the scheduler while every task is stopped; non-empty = abort
	OnEnd     func(s *Sim) // called by the scheduler when the run proper is over, before goroutines are released
	// SkipFSClose: Close of a file is not a scheduling point (default true via !FSCloseEvent)
	FSCloseEvent bool
}

type Sim struct {
	Opt   Options
	rng   SplitMix
	aux   SplitMix // map seeds / iteration offsets
	tasks []*Task
	cur   *Task
	seq   int

	Steps    int
	Switches int
	Hash     uint64
	Log      []string
	Tape     []uint32

	FS   *FS
	pool []poolFree

	free     atomic.Bool
	Deadlock bool
	Livelock bool
	Desync   string
	DeadInfo string
	Abort    string
	spawnNm  string
	spawnCl  bool
	SpawnTag int

	pctChange map[int]bool
	rr        int
	slept     bool

	SwitchPairs map[uint64]struct{}
	SiteCount   [nSiteKinds]int
	SelMulti    int // select draws with >1 case
	AuxDraws    int
	AuxSkips    int
	PoolGets    int
	PoolReuse   int
	SimStart    time.Time
	SimEnd      time.Time
	token       int64  // race detector: tasks release on it before parking, the scheduler acquires
	Leaked      int    // tasks still alive when the bubble was left
	RootPanic   string // synctest complaint when leaving the bubble
}

// ------------------------------------------------------------------ PRNG

type SplitMix struct{ s uint64 }

//go:norace
func (r *SplitMix) Next() uint64 {
	r.s += 0x9e3779b97f4a7c15
	z := r.s
	z = (z ^ (z >> 30)) * 0xbf58476d1ce4e5b9
	z = (z ^ (z >> 27)) * 0x94d049bb133111eb
	return z ^ (z >> 31)
}

//go:norace
func (r *SplitMix) Intn(n int) int {
	if n <= 1 {
		return 0
	}
	return int(r.Next() % uint64(n))
}

//go:norace
func (r *SplitMix) Float() float64 { return float64(r.Next()>>11) / (1 << 53) }

func NewSplitMix(seed uint64) SplitMix { return SplitMix{s: seed} }

// ------------------------------------------------------------------ goroutine table

var gtab atomic.Pointer[[]*Task]
var gtabMu sync.Mutex // writers only; never taken inside a simulated critical path

//go:norace
func lookup() *Task {
	if !runtime.VerifInBubble() {
		return nil
	}
	p := gtab.Load()
	if p == nil {
		return nil
	}
	id := runtime.VerifGoid()
	for _, t := range *p {
		if t.goid == id {
			return t
		}
	}
	return nil
}

//go:norace
func register(t *Task) {
	gtabMu.Lock()
	var n []*Task
	if p := gtab.Load(); p != nil {
		n = append(n, *p...)
	}
	n = append(n, t)
	gtab.Store(&n)
	gtabMu.Unlock()
}

//go:norace
func unregister(t *Task) {
	gtabMu.Lock()
	var n []*Task
	if p := gtab.Load(); p != nil {
		for _, x := range *p {
			if x != t {
				n = append(n, x)
			}
		}
	}
	gtab.Store(&n)
	gtabMu.Unlock()
}

// ------------------------------------------------------------------ pc classification

const (
	clsUnknown = iota
	clsRuntime // runtime / sync / internal: look further up
	clsSim     // engine module or harness
	clsOther
)

var pcCache [8192]atomic.Uint64

// SimPrefixes lists the import-path prefixes whose direct lock, channel,
// select, go, map and pool operations are simulation events.
var SimPrefixes = []string{"github.com/B1NARY-GR0UP/originium", "verifsim"}

//go:norace
func classify(pc uintptr) int {
	h := (uint64(pc) * 0x9e3779b97f4a7c15) >> 51 // 13 bits
	for i := uint64(0); i < 4; i++ {
		e := pcCache[(h+i)&8191].Load()
		if e == 0 {
			break
		}
		if e>>4 == uint64(pc) {
			return int(e & 15)
		}
	}
	cls := clsOther
	f := runtime.FuncForPC(pc - 1)
	if f != nil {
		name := f.Name()
		switch {
		case strings.HasPrefix(name, "runtime.") || strings.HasPrefix(name, "sync.") ||
			strings.HasPrefix(name, "internal/") || strings.HasPrefix(name, "runtime/") ||
			strings.HasPrefix(name, "sync/") || strings.HasPrefix(name, "math/rand"):
			// (math/rand: its global functions draw from runtime.rand; transparent, so that an
			// engine function using them gets simulated randomness)
			cls = clsRuntime
		default:
			for _, p := range SimPrefixes {
				if strings.HasPrefix(name, p) {
					cls = clsSim
					break
				}
			}
		}
	}
	for i := uint64(0); i < 4; i++ {
		slot := &pcCache[(h+i)&8191]
		if slot.Load() == 0 {
			slot.CompareAndSwap(0, uint64(pc)<<4|uint64(cls))
			break
		}
	}
	return cls
}

// callerIsSim reports whether the function that called the hooked std function
// (skip frames above the hook) is engine or harness code.
//
//go:norace
func callerIsSim(skip int) (uintptr, bool) {
	var pcs [3]uintptr
	n := runtime.Callers(skip+1, pcs[:])
	if n == 0 {
		return 0, false
	}
	if classify(pcs[0]) == clsSim {
		return pcs[0], true
	}
	// sync.Cond.Wait re-locks its Locker and sync.Once.Do locks its mutex on behalf
	// of their caller: if that caller is engine code the lock is a scheduling
	// point as well (a real Lock could block non-durably behind a parked task)
	if n >= 2 && isSyncRelay(pcs[0]) {
		for i := 1; i < n; i++ {
			switch classify(pcs[i]) {
			case clsSim:
				return pcs[i], true
			case clsRuntime:
				continue
			}
			break
		}
	}
	return pcs[0], false
}

var relayCache [64]atomic.Uint64

//go:norace
func isSyncRelay(pc uintptr) bool {
	slot := &relayCache[(uint64(pc)*0x9e3779b97f4a7c15)>>58]
	if e := slot.Load(); e>>1 == uint64(pc) {
		return e&1 == 1
	}
	yes := false
	if f := runtime.FuncForPC(pc - 1); f != nil {
		switch f.Name() {
		case "sync.(*Cond).Wait", "sync.(*Once).doSlow", "sync.(*Once).Do":
			yes = true
		}
	}
	v := uint64(pc) << 1
	if yes {
		v |= 1
	}
	slot.Store(v)
	return yes
}

// ------------------------------------------------------------------ hooks

var active atomic.Pointer[Sim]

//go:norace
func (t *Task) park(site Site) {
	t.site = site
	t.parks++
	t.parkStep = t.sim.Steps
	t.rwWait, t.rwQueue = nil, false
	// The scheduler must see everything this task did (one-way edge); nothing
	// of the hand-off may order this task after other tasks in the eyes of the
	// race detector.
	// (park is always called inside the dark window of an entry point.)
	raceOn()
	raceRelease(unsafe.Pointer(&t.sim.token))
	raceOff()
	t.state.Store(stParked)
	<-t.wake
	if t.killed.Load() {
		t.exit()
	}
}

//go:norace
func (t *Task) exit() {
	if !t.exiting {
		t.exiting = true
		t.inHook = true
		raceOn() // leave the dark window of the enclosing entry point
		runtime.Goexit()
	}
}

//go:norace
func chanHook(kind int, c unsafe.Pointer, pc uintptr) {
	raceOff()
	chanHook1(kind, c, pc)
	raceOn()
}

//go:norace
func chanHook1(kind int, c unsafe.Pointer, pc uintptr) {
	t := lookup()
	if t == nil || t.inHook {
		return
	}
	s := t.sim
	if t.killed.Load() {
		// the run is over: a task that comes back from a blocking operation
		// during teardown must not execute another line of engine or harness code
		t.exit()
		return
	}
	if s.free.Load() {
		return
	}
	if classify(pc) != clsSim {
		return
	}
	t.inHook = true
	switch kind {
	case 5:
		t.inSelect = true
	case 6:
		t.inSelect = false
	}
	t.park(Site{Kind: SiteSend + kind, PC: pc, Obj: c})
	t.inHook = false
}

//go:norace
func selHook(n uint32) (uint32, bool) {
	raceOff()
	v, ok := selHook1(n)
	raceOn()
	return v, ok
}

//go:norace
func selHook1(n uint32) (uint32, bool) {
	t := lookup()
	if t == nil || !t.inSelect || t.killed.Load() {
		return 0, false
	}
	s := t.sim
	if s.free.Load() {
		return 0, false
	}
	if n > 1 {
		s.SelMulti++
	}
	return uint32(s.draw(int(n))), true
}

//go:norace
func mapHook() (uint64, bool) {
	raceOff()
	v, ok := mapHook1()
	raceOn()
	return v, ok
}

//go:norace
func mapHook1() (uint64, bool) {
	t := lookup()
	if t == nil || t.inHook || t.killed.Load() {
		return 0, false
	}
	s := t.sim
	if s.free.Load() {
		return 0, false
	}
	var pcs [12]uintptr
	n := runtime.Callers(3, pcs[:])
	if DebugMap != nil {
		f := DebugMap
		DebugMap = nil
		f(pcs[:n])
		DebugMap = f
	}
	for i := 0; i < n; i++ {
		switch classify(pcs[i]) {
		case clsRuntime:
			continue
		case clsSim:
			s.AuxDraws++
			return s.aux.Next(), true
		default:
			s.AuxSkips++
			return 0, false
		}
	}
	s.AuxSkips++
	return 0, false
}

//go:norace
func spawnHook(fn unsafe.Pointer, pc uintptr) unsafe.Pointer {
	raceOff()
	w := spawnHook1(fn, pc)
	raceOn()
	return w
}

//go:norace
func spawnHook1(fn unsafe.Pointer, pc uintptr) unsafe.Pointer {
	t := lookup()
	if t == nil || t.inHook || t.killed.Load() {
		return nil
	}
	s := t.sim
	if s.free.Load() || classify(pc) != clsSim {
		return nil
	}
	t.inHook = true
	name := s.spawnNm
	client := s.spawnCl
	s.spawnNm, s.spawnCl = "", false
	if name == "" {
		if f := runtime.FuncForPC(pc - 1); f != nil {
			name = f.Name()
			if i := strings.LastIndex(name, "/"); i >= 0 {
				name = name[i+1:]
			}
		}
	}
	child := s.newTask(name, client)
	var orig func()
	*(*unsafe.Pointer)(unsafe.Pointer(&orig)) = fn
	w := func() { s.taskMain(child, orig) }
	t.inHook = false
	return *(*unsafe.Pointer)(unsafe.Pointer(&w))
}

//go:norace
func lockHook(m unsafe.Pointer, kind int) {
	raceOff()
	lockHook1(m, kind)
	raceOn()
}

//go:norace
func lockHook1(m unsafe.Pointer, kind int) {
	t := lookup()
	if t == nil || t.inHook {
		return
	}
	s := t.sim
	if t.killed.Load() {
		// (a task that is already unwinding has inHook set and never gets here)
		t.exit()
		return
	}
	if s.free.Load() {
		return
	}
	pc, ok := callerIsSim(4)
	if !ok {
		return
	}
	t.inHook = true
	t.park(Site{Kind: SiteLock + kind, PC: pc, Obj: m})
	t.inHook = false
}

//go:norace
func poolHook(p *sync.Pool, x any, put bool) (any, bool) {
	raceOff()
	y, ok := poolHook1(p, x, put)
	raceOn()
	if ok && RaceBuild {
		// the same happens-before edge the real pool gives: Put -> Get of that object
		if put {
			raceRelease(ifacePtr(x))
		} else if y != nil {
			raceAcquire(ifacePtr(y))
		}
	}
	return y, ok
}

// ifacePtr returns the data pointer of an interface value holding a pointer.
//
//go:norace
func ifacePtr(x any) unsafe.Pointer {
	return (*[2]unsafe.Pointer)(unsafe.Pointer(&x))[1]
}

//go:norace
func poolHook1(p *sync.Pool, x any, put bool) (any, bool) {
	t := lookup()
	if t == nil || t.inHook {
		return nil, false
	}
	s := t.sim
	if !s.Opt.PoolSim || s.free.Load() || t.killed.Load() {
		return nil, false
	}
	if _, ok := callerIsSim(4); !ok {
		return nil, false
	}
	t.inHook = true
	defer func() { t.inHook = false }()
	if put {
		if s.Opt.Poison != nil {
			s.Opt.Poison(x)
		}
		pf := s.poolOf(p)
		pf.free = append(pf.free, x)
		return nil, true
	}
	s.PoolGets++
	pf := s.poolOf(p)
	fl := pf.free
	if len(fl) == 0 {
		return nil, true
	}
	k := s.draw(len(fl) + 1)
	if k == len(fl) {
		return nil, true
	}
	s.PoolReuse++
	x = fl[k]
	fl[k] = fl[len(fl)-1]
	pf.free = fl[:len(fl)-1]
	return x, true
}

type poolFree struct {
	p    *sync.Pool
	free []any
}

//go:norace
func (s *Sim) poolOf(p *sync.Pool) *poolFree {
	for i := range s.pool {
		if s.pool[i].p == p {
			return &s.pool[i]
		}
	}
	s.pool = append(s.pool, poolFree{p: p})
	return &s.pool[len(s.pool)-1]
}

// DebugMap is a development aid (nil in normal operation).
var DebugMap func(pcs []uintptr)

var errKilled = fmt.Errorf("simrt: file mutation by a killed task refused")

//go:norace
func fsHook(op int, name, name2 string, n int64) error {
	raceOff()
	err := fsHook1(op, name, name2, n)
	raceOn()
	return err
}

//go:norace
func fsHook1(op int, name, name2 string, n int64) error {
	t := lookup()
	if t == nil || t.inHook {
		return nil
	}
	s := t.sim
	if s.FS == nil || !strings.HasPrefix(name, s.FS.Dir) {
		return nil
	}
	if t.killed.Load() {
		t.exit()
		return errKilled
	}
	if s.free.Load() {
		return nil
	}
	if op == os.VerifOpClose && !s.Opt.FSCloseEvent {
		return nil
	}
	t.inHook = true
	base := name[len(s.FS.Dir):]
	base = strings.TrimPrefix(base, "/")
	t.park(Site{Kind: SiteFS, Op: op, Name: base})
	// released: this task is now the only one running
	s.FS.settle()
	if op != os.VerifOpClose {
		s.FS.Ops++
		ev := FSEvent{Index: s.FS.Ops, Op: op, Name: base, N: n, Task: t, Seq: s.seq}
		if name2 != "" && strings.HasPrefix(name2, s.FS.Dir) {
			ev.Name2 = strings.TrimPrefix(name2[len(s.FS.Dir):], "/")
		}
		s.FS.OpCount[op]++
		if s.Opt.OnFS != nil {
			s.Opt.OnFS(ev)
		}
		s.FS.note(op, base, ev.Name2, n)
	}
	t.inHook = false
	return nil
}

var hooksOnce sync.Once

func installHooks() {
	hooksOnce.Do(func() {
		runtime.VerifSetHooks(chanHook, selHook, mapHook, spawnHook)
		sync.VerifLockHook = lockHook
		sync.VerifPoolHook = poolHook
		os.VerifFSHook = fsHook
	})
}

// ------------------------------------------------------------------ tasks

//go:norace
func (s *Sim) newTask(name string, client bool) *Task {
	t := &Task{ID: len(s.tasks), Name: name, Client: client, sim: s, wake: make(chan struct{}), Tag: s.SpawnTag}
	t.prio = 1 + s.rng.Intn(1000)
	s.tasks = append(s.tasks, t)
	return t
}

//go:norace
func (s *Sim) taskMain(t *Task, fn func()) {
	t.goid = runtime.VerifGoid()
	t.inHook = true
	defer func() {
		r := recover()
		t.inHook = true
		if r != nil {
			t.PanicVal = r
			t.PanicStack = string(debug.Stack())
		}
		raceRelease(unsafe.Pointer(&s.token))
		raceOff()
		unregister(t)
		t.state.Store(stDone)
		raceOn()
	}()
	raceOff()
	register(t)
	t.park(Site{Kind: SiteStart})
	raceOn()
	t.inHook = false
	fn()
}

// Spawn creates a task from the scheduler goroutine (before Run's loop starts)
// or from teardown code.
func (s *Sim) Spawn(name string, client bool, fn func()) *Task {
	t := s.newTask(name, client)
	go s.taskMain(t, fn)
	return t
}

// Go starts a new simulated task from inside a running task.
//
//go:norace
func (s *Sim) Go(name string, client bool, fn func()) {
	s.spawnNm, s.spawnCl = name, client
	go fn()
}

// Cur returns the calling task.
func (s *Sim) Cur() *Task { return lookup() }

// Seq returns the next global event sequence number (strictly increasing).
//
//go:norace
func (s *Sim) Seq() int {
	s.checkKilled()
	s.seq++
	return s.seq
}

// checkKilled ends the calling task if the run is over (a client released from
// a blocking call by the teardown must not go on recording results).
//
//go:norace
func (s *Sim) checkKilled() {
	if t := lookup(); t != nil && !t.inHook && t.killed.Load() {
		raceOff() // exit() leaves one dark window
		t.exit()
	}
}

// Yield is an explicit scheduling point of harness code.
//
//go:norace
func (s *Sim) Yield(tag string) {
	raceOff()
	s.yield1(tag)
	raceOn()
}

//go:norace
func (s *Sim) yield1(tag string) {
	t := lookup()
	if t == nil || t.inHook {
		return
	}
	if t.killed.Load() {
		t.exit()
	}
	if s.free.Load() {
		return
	}
	t.inHook = true
	t.park(Site{Kind: SiteYield, Name: tag})
	t.inHook = false
}

// WaitUntil parks the calling task until cond (evaluated by the scheduler while
// every task is stopped) holds. It replaces polling loops in harness code.
//
//go:norace
func (s *Sim) WaitUntil(tag string, cond func() bool) {
	raceOff()
	s.waitUntil1(tag, cond)
	raceOn()
}

//go:norace
func (s *Sim) waitUntil1(tag string, cond func() bool) {
	t := lookup()
	if t == nil || t.inHook {
		return
	}
	if t.killed.Load() {
		t.exit()
	}
	if s.free.Load() {
		return
	}
	t.inHook = true
	t.park(Site{Kind: SiteYield, Name: tag, Cond: cond})
	t.inHook = false
}

// Sleep advances the simulated clock by d (the scheduler sleeps; no task runs
// meanwhile) and is a scheduling point.
//
//go:norace
func (s *Sim) Sleep(d time.Duration) {
	raceOff()
	s.sleep1(d)
	raceOn()
}

//go:norace
func (s *Sim) sleep1(d time.Duration) {
	t := lookup()
	if t == nil || t.inHook {
		return
	}
	if t.killed.Load() {
		t.exit()
	}
	if s.free.Load() {
		return
	}
	t.inHook = true
	t.park(Site{Kind: SiteYield, Name: "sleep", Sleep: d})
	t.inHook = false
}

// APIBegin is the scheduling point before a public API call of a client. In
// op-atomic mode it is admitted only while no other client is inside a call.
//
//go:norace
func (s *Sim) APIBegin(tag string) {
	raceOff()
	s.aPIBegin1(tag)
	raceOn()
}

//go:norace
func (s *Sim) aPIBegin1(tag string) {
	t := lookup()
	if t == nil || t.inHook {
		return
	}
	if t.killed.Load() {
		t.exit()
	}
	if s.free.Load() {
		return
	}
	t.inHook = true
	t.park(Site{Kind: SiteAPI, Name: tag})
	t.InAPI = true
	t.inHook = false
}

//go:norace
func (s *Sim) APIEnd() {
	s.checkKilled()
	if t := lookup(); t != nil {
		t.InAPI = false
	}
}

// Tasks returns all tasks created so far.
func (s *Sim) Tasks() []*Task { return s.tasks }

// ------------------------------------------------------------------ draws

//go:norace
func (s *Sim) draw(n int) int {
	v := s.rng.Intn(n)
	s.note(uint64(0xd0000000) | uint64(v))
	return v
}

// Draw is a recorded random choice for harness code running as a task.
func (s *Sim) Draw(n int) int { return s.draw(n) }

//go:norace
func (s *Sim) note(x uint64) {
	h := s.Hash
	h ^= x
	h *= 0x100000001b3
	h ^= h >> 29
	s.Hash = h
}

// ------------------------------------------------------------------ scheduler

//go:norace
func (s *Sim) admissible(t *Task) bool {
	switch t.site.Kind {
	case SiteLock:
		m := (*sync.Mutex)(t.site.Obj)
		if m.TryLock() {
			m.Unlock()
			return true
		}
		return false
	case SiteRLock:
		// sync.RWMutex prefers writers: "if any goroutine calls Lock while the lock is
		// already held by one or more readers, concurrent calls to RLock will block
		// until the writer has acquired (and released) the lock". A writer that is
		// parked at its Lock while readers hold the mutex has made that call; the real
		// mutex never sees it (the task is released only once TryLock would succeed),
		// so the rule is applied here. Readers that were already queued behind a
		// writer which has meanwhile released are through (the real Unlock admits
		// them before the next writer).
		m := (*sync.RWMutex)(t.site.Obj)
		if !m.TryRLock() {
			t.rwQueue = true // a writer holds the lock
			return false
		}
		m.RUnlock()
		if t.rwQueue {
			if w := t.rwWait; w != nil && w.state.Load() == stParked && w.site.Kind == SiteWLock && w.site.Obj == t.site.Obj && w.parks == t.rwEpoch {
				return false // the writer it queued behind has not even acquired yet
			}
			return true
		}
		if w := s.blockedWriter(t.site.Obj); w != nil {
			t.rwQueue, t.rwWait, t.rwEpoch = true, w, w.parks
			return false
		}
		return true
	case SiteWLock:
		m := (*sync.RWMutex)(t.site.Obj)
		if m.TryLock() {
			m.Unlock()
			return true
		}
		return false
	case SiteYield:
		if t.site.Cond != nil {
			return t.site.Cond()
		}
		return true
	case SiteAPI:
		if s.Opt.OpAtomic {
			for _, o := range s.tasks {
				if o != t && o.InAPI && !o.Done() {
					return false
				}
			}
		}
		return true
	}
	return true
}

// blockedWriter returns the task that has been parked longest at Lock of the
// RWMutex m while readers hold it (no writer holds it: the caller's TryRLock
// succeeded), or nil.
//
//go:norace
func (s *Sim) blockedWriter(m unsafe.Pointer) *Task {
	var first *Task
	for _, w := range s.tasks {
		if w.state.Load() == stParked && w.site.Kind == SiteWLock && w.site.Obj == m && !w.killed.Load() {
			if first == nil || w.parkStep < first.parkStep {
				first = w
			}
		}
	}
	if first == nil {
		return nil
	}
	mu := (*sync.RWMutex)(m)
	if mu.TryLock() {
		mu.Unlock()
		return nil // free: the writer is not blocked, it just has not been scheduled yet
	}
	return first
}

//go:norace
func (s *Sim) clientsDone() bool {
	for _, t := range s.tasks {
		if t.Client && !t.Done() {
			return false
		}
	}
	return true
}

//go:norace
func (s *Sim) pick(run []*Task) *Task {
	if len(run) == 1 {
		return run[0]
	}
	strat := s.Opt.Strategy
	if s.Steps > s.Opt.MaxSteps {
		strat = StratRoundRb
	}
	curIdx := -1
	for i, t := range run {
		if t == s.cur {
			curIdx = i
		}
	}
	switch strat {
	case StratSticky:
		if curIdx >= 0 && s.rng.Float() < s.Opt.StickyP {
			return run[curIdx]
		}
		return run[s.rng.Intn(len(run))]
	case StratPCT:
		if s.pctChange[s.Steps] && s.cur != nil {
			s.cur.prio = -s.Steps
		}
		best := run[0]
		for _, t := range run[1:] {
			if t.prio > best.prio {
				best = t
			}
		}
		return best
	case StratStarve, StratEager:
		var a, b []*Task
		for _, t := range run {
			if t.Client == (strat == StratStarve) {
				a = append(a, t)
			} else {
				b = append(b, t)
			}
		}
		if len(a) == 0 {
			a = b
		}
		// mostly deterministic preference with a little noise
		if len(b) > 0 && s.rng.Intn(16) == 0 {
			a = b
		}
		return a[s.rng.Intn(len(a))]
	case StratRoundRb:
		s.rr++
		return run[s.rr%len(run)]
	}
	return run[s.rng.Intn(len(run))]
}

var clockSteps = []time.Duration{1, 7, 999, time.Microsecond, 37 * time.Microsecond, time.Millisecond,
	123456789, time.Second, 61 * time.Second, time.Hour, 25 * time.Hour}

//go:norace
func (s *Sim) clockDelta() time.Duration {
	if !s.Opt.ClockWide {
		return time.Duration(1 + s.rng.Intn(1000))
	}
	r := s.rng.Intn(100)
	switch {
	case r < 60:
		return time.Duration(1 + s.rng.Intn(2000))
	case r < 80:
		return time.Duration(1 + s.rng.Intn(int(time.Millisecond)))
	default:
		return clockSteps[s.rng.Intn(len(clockSteps))] + time.Duration(s.rng.Intn(1000))
	}
}

//go:norace
func (s *Sim) loop() {
	for {
		synctest.Wait()
		raceAcquire(unsafe.Pointer(&s.token))
		if s.Abort != "" {
			return
		}
		for _, t := range s.tasks {
			if t.Done() && t.PanicVal != nil && !t.reported {
				t.reported = true
				s.Abort = fmt.Sprintf("panic in task %d (%s): %v", t.ID, t.Name, t.PanicVal)
				return
			}
		}
		if s.Opt.OnStep != nil {
			if msg := s.Opt.OnStep(s); msg != "" {
				s.Abort = "invariant: " + msg
				return
			}
		}
		if s.clientsDone() {
			return
		}
		var run []*Task
		raceOff() // lock probes must not publish the scheduler's knowledge to the tasks
		for _, t := range s.tasks {
			if t.state.Load() == stParked && s.admissible(t) {
				run = append(run, t)
			}
		}
		raceOn()
		if len(run) == 0 {
			if !s.slept {
				// a task may be waiting for a timer of the code under test
				s.slept = true
				time.Sleep(time.Hour)
				continue
			}
			s.Deadlock = true
			s.DeadInfo = s.describe()
			return
		}
		s.slept = false
		t := s.pick(run)
		s.Steps++
		if s.Steps > 2*s.Opt.MaxSteps {
			s.Livelock = true
			s.DeadInfo = s.describe()
			return
		}
		if s.cur != nil && s.cur != t {
			s.Switches++
			k := uint64(s.cur.site.Kind)<<56 ^ uint64(s.cur.site.PC)<<20 ^ uint64(t.site.PC) ^ uint64(t.site.Kind)<<60 ^ uint64(t.site.Op)<<52 ^ uint64(s.cur.site.Op)<<48
			s.SwitchPairs[k] = struct{}{}
		}
		s.SiteCount[t.site.Kind]++
		s.note(uint64(t.ID)<<40 ^ uint64(t.site.Kind)<<32 ^ uint64(t.site.PC) ^ uint64(t.site.Op)<<24)
		if s.Opt.Trace {
			ids := ""
			for _, x := range run {
				ids += fmt.Sprintf("%d,", x.ID)
			}
			s.Log = append(s.Log, fmt.Sprintf("%d t%d %s %s run[%s] h%x aux%d/%d\n", s.Steps, t.ID, siteNames[t.site.Kind], s.siteDesc(t.site), ids, s.Hash&0xffff, s.AuxDraws, s.AuxSkips))
		}
		if t.site.Kind == SiteFS {
			time.Sleep(s.clockDelta())
		}
		if t.site.Sleep > 0 {
			time.Sleep(t.site.Sleep)
		}
		s.cur = t
		raceOff()
		t.state.Store(stRunning)
		t.wake <- struct{}{}
		raceOn()
	}
}

func (s *Sim) siteDesc(st Site) string {
	if st.Kind == SiteFS {
		return fmt.Sprintf("%s %s", FSOpName(st.Op), st.Name)
	}
	if st.Kind == SiteYield || st.Kind == SiteAPI {
		return st.Name
	}
	if st.PC != 0 {
		if f := runtime.FuncForPC(st.PC - 1); f != nil {
			file, line := f.FileLine(st.PC - 1)
			if i := strings.LastIndex(file, "/"); i >= 0 {
				file = file[i+1:]
			}
			return fmt.Sprintf("%s:%d", file, line)
		}
	}
	return ""
}

func (s *Sim) describe() string {
	var b strings.Builder
	for _, t := range s.tasks {
		st := "running/blocked-in-op"
		switch t.state.Load() {
		case stParked:
			st = "parked(not admissible)"
		case stDone:
			st = "done"
		}
		fmt.Fprintf(&b, "task %d %s client=%v: %s at %s %s\n", t.ID, t.Name, t.Client, st, siteNames[t.site.Kind], s.siteDesc(t.site))
	}
	return b.String()
}

// Now returns the simulated time.
func (s *Sim) Now() time.Time { return time.Now() }

// end releases every goroutine of the run: parked tasks unwind with Goexit,
// tasks blocked in channel operations are the harness' business (Teardown).
//
//go:norace
func (s *Sim) end() {
	s.FS.settleIfAny()
	if s.Opt.OnEnd != nil {
		s.Opt.OnEnd(s)
	}
	raceOff()
	defer raceOn()
	for _, t := range s.tasks {
		t.killed.Store(true)
	}
	for round := 0; round < 50; round++ {
		n := 0
		for _, t := range s.tasks {
			if t.state.Load() == stParked {
				t.state.Store(stRunning)
				t.wake <- struct{}{}
				n++
			}
		}
		synctest.Wait()
		if n == 0 {
			break
		}
	}
	s.free.Store(true)
	if s.Opt.Teardown != nil {
		s.Opt.Teardown(s)
	}
	synctest.Wait()
}

// Run executes one simulated run: main is the first client task.
func Run(t *testing.T, opt Options, main func(s *Sim)) (s *Sim) {
	installHooks()
	if opt.MaxSteps == 0 {
		opt.MaxSteps = 200000
	}
	if opt.Strategy == "" {
		opt.Strategy = StratRandom
	}
	s = &Sim{Opt: opt, rng: NewSplitMix(opt.Seed), aux: NewSplitMix(opt.Seed ^ 0xabcdef12345),
		SwitchPairs: map[uint64]struct{}{}, Hash: 0xcbf29ce484222325}
	if opt.Dir != "" {
		s.FS = newFS(opt.Dir)
	} else {
		s.FS = nil
	}
	if opt.Strategy == StratPCT {
		s.pctChange = map[int]bool{}
		for i := 0; i < opt.PCTDepth; i++ {
			s.pctChange[1+s.rng.Intn(3000)] = true
		}
	}
	defer func() {
		// synctest panics if blocked goroutines remain in the bubble; they are
		// goroutines of an abandoned instance and stay blocked for good.
		if r := recover(); r != nil {
			msg := fmt.Sprint(r)
			if !strings.Contains(msg, "blocked goroutines remain") && !strings.Contains(msg, "deadlock") {
				panic(r)
			}
			s.RootPanic = msg
		}
		for _, t := range s.tasks {
			if !t.Done() {
				s.Leaked++
			}
		}
	}()
	synctest.VerifRun(func() {
		active.Store(s)
		defer active.Store(nil)
		s.SimStart = time.Now()
		s.Spawn("main", true, func() { main(s) })
		s.loop()
		s.SimEnd = time.Now()
		s.end()
	})
	return s
}
