package simrt

import (
	"sync"
	"testing"
)

type toy struct {
	mu  sync.Mutex
	rw  sync.RWMutex
	n   int
	c   chan int
	out []int
}

func runToy(t *testing.T, seed uint64) (uint64, []int, int) {
	ty := &toy{}
	s := Run(t, Options{Seed: seed, Strategy: StratRandom}, func(s *Sim) {
		ty.c = make(chan int, 1)
		done := make(chan struct{})
		for i := 0; i < 3; i++ {
			i := i
			s.Go("w", true, func() {
				for k := 0; k < 3; k++ {
					ty.mu.Lock()
					ty.n++
					ty.mu.Unlock()
					ty.c <- i*10 + k
				}
			})
		}
		s.Go("r", true, func() {
			for k := 0; k < 9; k++ {
				v := <-ty.c
				ty.rw.Lock()
				ty.out = append(ty.out, v)
				ty.rw.Unlock()
			}
			close(done)
		})
		<-done
	})
	if s.Deadlock || s.Abort != "" {
		t.Fatalf("seed %d: deadlock=%v abort=%s\n%s", seed, s.Deadlock, s.Abort, s.DeadInfo)
	}
	return s.Hash, ty.out, s.Steps
}

func TestToy(t *testing.T) {
	distinct := map[uint64]bool{}
	for seed := uint64(1); seed <= 200; seed++ {
		h1, o1, st := runToy(t, seed)
		h2, o2, _ := runToy(t, seed)
		if h1 != h2 || len(o1) != 9 || len(o2) != 9 {
			t.Fatalf("seed %d: nondeterministic %x %x %v %v", seed, h1, h2, o1, o2)
		}
		for i := range o1 {
			if o1[i] != o2[i] {
				t.Fatalf("seed %d: order differs", seed)
			}
		}
		distinct[h1] = true
		if seed == 1 {
			t.Logf("steps=%d out=%v", st, o1)
		}
	}
	t.Logf("distinct schedules: %d/200", len(distinct))
}
