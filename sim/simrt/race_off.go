//go:build !race

package simrt

const RaceBuild = false

func raceOff() {}
func raceOn()  {}
