//go:build !race

package simrt

import "unsafe"

const RaceBuild = false

func raceOff()                     {}
func raceOn()                      {}
func raceRelease(p unsafe.Pointer) {}
func raceAcquire(p unsafe.Pointer) {}
