package simrt

import (
	"sync"
	"testing"
)

// A read lock taken twice by one task deadlocks in real Go whenever a writer
// calls Lock between the two RLock calls (sync.RWMutex prefers writers). The
// scheduler must reproduce that, and must never report a deadlock for the
// same program without the nested RLock.
func runRW(t *testing.T, seed uint64, nested bool) *Sim {
	var rw sync.RWMutex
	n := 0
	return Run(t, Options{Seed: seed, Strategy: StratRandom}, func(s *Sim) {
		left := 3
		for i := 0; i < 2; i++ {
			s.Go("reader", true, func() {
				for k := 0; k < 2; k++ {
					rw.RLock()
					_ = n
					if nested {
						rw.RLock()
						_ = n
						rw.RUnlock()
					}
					rw.RUnlock()
				}
				left--
			})
		}
		s.Go("writer", true, func() {
			for k := 0; k < 2; k++ {
				rw.Lock()
				n++
				rw.Unlock()
			}
			left--
		})
		s.WaitUntil("join", func() bool { return left == 0 })
	})
}

func TestRWMutexWriterPreference(t *testing.T) {
	dead := 0
	for seed := uint64(1); seed <= 300; seed++ {
		if s := runRW(t, seed, false); s.Deadlock || s.Abort != "" {
			t.Fatalf("seed %d: plain readers/writer: deadlock=%v abort=%q\n%s", seed, s.Deadlock, s.Abort, s.DeadInfo)
		}
		s1 := runRW(t, seed, true)
		s2 := runRW(t, seed, true)
		if s1.Deadlock != s2.Deadlock || s1.Hash != s2.Hash {
			t.Fatalf("seed %d: nested run not deterministic", seed)
		}
		if s1.Deadlock {
			dead++
		}
	}
	if dead == 0 {
		t.Fatalf("nested RLock never deadlocked in 300 schedules: writer preference is not modelled")
	}
	t.Logf("nested RLock deadlocked in %d of 300 schedules", dead)
}
