//go:build race

package simrt

import (
	"runtime"
	"unsafe"
)

const RaceBuild = true

//go:norace
func raceOff() { runtime.RaceDisable() }

//go:norace
func raceOn() { runtime.RaceEnable() }

//go:norace
func raceRelease(p unsafe.Pointer) { runtime.RaceReleaseMerge(p) }

//go:norace
func raceAcquire(p unsafe.Pointer) { runtime.RaceAcquire(p) }
