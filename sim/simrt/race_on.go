//go:build race

package simrt

import "runtime"

const RaceBuild = true

//go:norace
func raceOff() { runtime.RaceDisable() }

//go:norace
func raceOn() { runtime.RaceEnable() }
