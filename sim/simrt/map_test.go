package simrt

import (
	"fmt"
	mrand "math/rand"
	"testing"
)

func mapOrder(t *testing.T, seed uint64) string {
	out := ""
	Run(t, Options{Seed: seed}, func(s *Sim) {
		m := map[uint64][]int{}
		for i := uint64(0); i < 5; i++ {
			m[i*7] = append(m[i*7], int(i))
		}
		for k := range m {
			out += fmt.Sprint(k, ",")
			if k%2 == 0 {
				delete(m, k)
			}
		}
		big := map[int]int{}
		for i := 0; i < 40; i++ {
			big[i] = i
		}
		for k := range big {
			out += fmt.Sprint(k, ",")
		}
		out += fmt.Sprint("|", mrand.Intn(1000000), mrand.Int63())
	})
	return out
}

func TestMapOrder(t *testing.T) {
	a := mapOrder(t, 5)
	b := mapOrder(t, 5)
	c := mapOrder(t, 6)
	t.Log(a)
	t.Log(c)
	if a != b {
		t.Fatalf("same seed, different map order:\n%s\n%s", a, b)
	}
	if a == c {
		t.Fatalf("different seeds, same order")
	}
}
