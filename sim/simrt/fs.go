package simrt

import (
	"os"
	"path/filepath"
	"sort"
)

// FileState is the shadow record of one file of the run directory. Data is
// never modified after it has been stored (images share it).
type FileState struct {
	Data   []byte
	Synced int // length at the last completed fsync of this file (0 = never)
}

// Image is a crash image: file name -> state at one instant.
type Image map[string]FileState

// FS is the shadow of the run directory, maintained from the file operations
// that pass the os seam. The operations themselves execute against the real
// directory; the shadow is refreshed from it after each one.
type fsEntry struct {
	name string
	st   FileState
}

// fileTab is a tiny name -> state table. It is a slice, not a map: the
// runtime's map functions report accesses to the race detector themselves, and
// this table is touched by whichever task performs a file operation.
type fileTab struct{ ents []fsEntry }

//go:norace
func (t *fileTab) get(name string) (FileState, bool) {
	for i := range t.ents {
		if t.ents[i].name == name {
			return t.ents[i].st, true
		}
	}
	return FileState{}, false
}

//go:norace
func (t *fileTab) set(name string, st FileState) {
	for i := range t.ents {
		if t.ents[i].name == name {
			t.ents[i].st = st
			return
		}
	}
	t.ents = append(t.ents, fsEntry{name, st})
}

//go:norace
func (t *fileTab) del(name string) {
	for i := range t.ents {
		if t.ents[i].name == name {
			t.ents = append(t.ents[:i], t.ents[i+1:]...)
			return
		}
	}
}

type FS struct {
	Dir     string
	Files   fileTab
	dirty   []string
	pending struct {
		op   int
		name string
		set  bool
	}
	Ops     int
	OpCount [16]int
	// alias: an open *os.File keeps the name it was opened with; after a rename
	// its Write/Sync calls still arrive under the old name
	alias []fsAlias
}

type fsAlias struct{ from, to string }

// Resolve maps the name an open file reports to the name its inode has now.
//
//go:norace
func (fs *FS) Resolve(name string) string {
	for hop := 0; hop < 4; hop++ {
		next := name
		for i := len(fs.alias) - 1; i >= 0; i-- {
			if fs.alias[i].from == name {
				next = fs.alias[i].to
				break
			}
		}
		if next == name {
			break
		}
		name = next
	}
	return name
}

//go:norace
func (fs *FS) dropAlias(name string) {
	for i := 0; i < len(fs.alias); i++ {
		if fs.alias[i].from == name {
			fs.alias = append(fs.alias[:i], fs.alias[i+1:]...)
			i--
		}
	}
}

func newFS(dir string) *FS {
	fs := &FS{Dir: dir}
	fs.Rescan()
	return fs
}

var fsOpNames = [...]string{"open", "write", "sync", "ftruncate", "close", "remove", "rename", "truncate", "mkdir", "removeall"}

func FSOpName(op int) string {
	if op >= 0 && op < len(fsOpNames) {
		return fsOpNames[op]
	}
	return "?"
}

// Rescan rebuilds the shadow from the real directory; everything found is
// considered durable (used when a run starts on an existing image).
//
//go:norace
func (fs *FS) Rescan() {
	fs.Files = fileTab{}
	ents, err := os.ReadDir(fs.Dir)
	if err != nil {
		return
	}
	for _, e := range ents {
		if e.IsDir() {
			continue
		}
		b, err := os.ReadFile(filepath.Join(fs.Dir, e.Name()))
		if err == nil {
			fs.Files.set(e.Name(), FileState{Data: b, Synced: len(b)})
		}
	}
}

// note records that op is about to be executed on name.
//
//go:norace
func (fs *FS) note(op int, name, name2 string, n int64) {
	switch op {
	case os.VerifOpWrite, os.VerifOpSync, os.VerifOpFtruncate:
		name = fs.Resolve(name) // operation through an open file
	case os.VerifOpOpen, os.VerifOpRemove:
		fs.dropAlias(name) // the old name denotes a new (or no) file from now on
	case os.VerifOpRename:
		if name2 != "" {
			fs.dropAlias(name)
			fs.dropAlias(name2)
			fs.alias = append(fs.alias, fsAlias{name, name2})
		}
	}
	fs.dirty = append(fs.dirty, name)
	if name2 != "" {
		fs.dirty = append(fs.dirty, name2)
	}
	fs.pending.op, fs.pending.name, fs.pending.set = op, name, true
	if op == os.VerifOpRename && name2 != "" {
		fs.pending.name = name + "\x00" + name2
	}
}

//go:norace
func (fs *FS) settleIfAny() {
	if fs != nil {
		fs.settle()
	}
}

// settle brings the shadow up to date with the operations executed since the
// last call.
//
//go:norace
func (fs *FS) settle() {
	if fs == nil {
		return
	}
	var renFrom, renTo string
	if fs.pending.set && fs.pending.op == os.VerifOpRename {
		for i := 0; i < len(fs.pending.name); i++ {
			if fs.pending.name[i] == 0 {
				renFrom, renTo = fs.pending.name[:i], fs.pending.name[i+1:]
			}
		}
	}
	var carried FileState
	var carry bool
	if renFrom != "" {
		carried, carry = fs.Files.get(renFrom)
	}
	for _, name := range fs.dirty {
		b, err := os.ReadFile(filepath.Join(fs.Dir, name))
		if err != nil {
			fs.Files.del(name)
			continue
		}
		old, ok := fs.Files.get(name)
		st := FileState{Data: b}
		if ok {
			st.Synced = old.Synced
		}
		if name == renTo && carry {
			st.Synced = carried.Synced
		}
		if st.Synced > len(b) {
			st.Synced = len(b)
		}
		// a shrunk-and-regrown file (O_TRUNC then writes) keeps no synced prefix
		if ok && len(b) < len(old.Data) {
			if st.Synced > len(b) {
				st.Synced = len(b)
			}
		}
		fs.Files.set(name, st)
	}
	fs.dirty = fs.dirty[:0]
	if fs.pending.set {
		switch fs.pending.op {
		case os.VerifOpSync:
			if st, ok := fs.Files.get(fs.pending.name); ok {
				st.Synced = len(st.Data)
				fs.Files.set(fs.pending.name, st)
			}
		case os.VerifOpOpen:
			// O_TRUNC: handled by the length comparison above; creation leaves Synced 0
		}
		fs.pending.set = false
	}
}

// Snapshot returns the current shadow as an image (cheap: shares the data).
//
//go:norace
func (fs *FS) Snapshot() Image {
	im := make(Image, len(fs.Files.ents))
	for _, e := range fs.Files.ents {
		im[e.name] = e.st
	}
	return im
}

// Names returns the file names of an image in sorted order.
func (im Image) Names() []string {
	var n []string
	for k := range im {
		n = append(n, k)
	}
	sort.Strings(n)
	return n
}

// Hash is a content hash of the image (names, contents).
func (im Image) Hash() uint64 {
	h := uint64(0xcbf29ce484222325)
	mix := func(b byte) { h ^= uint64(b); h *= 0x100000001b3 }
	for _, n := range im.Names() {
		for i := 0; i < len(n); i++ {
			mix(n[i])
		}
		mix(0)
		st := im[n]
		for _, c := range st.Data {
			mix(c)
		}
		mix(1)
	}
	return h
}

// Materialize writes the image into dir (which must exist and be empty).
func (im Image) Materialize(dir string) error {
	for name, st := range im {
		if err := os.WriteFile(filepath.Join(dir, name), st.Data, 0o644); err != nil {
			return err
		}
	}
	return nil
}
